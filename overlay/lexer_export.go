package lexer

import (
	"io"

	"github.com/moorara/algo/lexer"
	"github.com/moorara/algo/lexer/input"
)

// VerifAdvanceDFA exposes the coded transition table to the verification harness.
func VerifAdvanceDFA(state int, r rune) int { return advanceDFA(state, r) }

type verifStubInput struct{}

func (verifStubInput) Next() (rune, error)               { return 0, nil }
func (verifStubInput) Retract()                          {}
func (verifStubInput) Lexeme() (string, lexer.Position)  { return "xx", lexer.Position{} }
func (verifStubInput) Skip() lexer.Position              { return lexer.Position{} }

// VerifEvalKind returns the terminal evalDFA attributes to a state ("ERR" for none).
func VerifEvalKind(state int) string {
	l := &Lexer{in: verifStubInput{}}
	return string(l.evalDFA(state).Terminal)
}

// VerifNewWithBuffer builds a lexer over a reader of half-size n (the production size is bufferSize).
func VerifNewWithBuffer(filename string, src io.Reader, n int) (*Lexer, error) {
	in, err := input.New(filename, src, n)
	if err != nil {
		return nil, err
	}
	return &Lexer{in: in}, nil
}

// verifRecInput decorates the lexer's input buffer and reports every operation with its result.
type verifRecInput struct {
	in  inputBuffer
	rec func(op string, r rune, s string, p lexer.Position, err error)
}

func (v *verifRecInput) Next() (rune, error) {
	r, err := v.in.Next()
	v.rec("Next", r, "", lexer.Position{}, err)
	return r, err
}

func (v *verifRecInput) Retract() {
	v.in.Retract()
	v.rec("Retract", 0, "", lexer.Position{}, nil)
}

func (v *verifRecInput) Lexeme() (string, lexer.Position) {
	s, p := v.in.Lexeme()
	v.rec("Lexeme", 0, s, p, nil)
	return s, p
}

func (v *verifRecInput) Skip() lexer.Position {
	p := v.in.Skip()
	v.rec("Skip", 0, "", p, nil)
	return p
}

// VerifRecord makes the lexer report every operation it performs on its input buffer.
func VerifRecord(l *Lexer, rec func(op string, r rune, s string, p lexer.Position, err error)) {
	l.in = &verifRecInput{in: l.in, rec: rec}
}
