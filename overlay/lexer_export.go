package lexer

import (
	"io"

	"github.com/moorara/algo/lexer"
	"github.com/moorara/algo/lexer/input"
)

// VerifAdvanceDFA exposes the coded transition table to the verification harness.
func VerifAdvanceDFA(state int, r rune) int { return advanceDFA(state, r) }

type verifStubInput struct{}

func (verifStubInput) Next() (rune, error)               { return 0, nil }
func (verifStubInput) Retract()                          {}
func (verifStubInput) Lexeme() (string, lexer.Position)  { return "xx", lexer.Position{} }
func (verifStubInput) Skip() lexer.Position              { return lexer.Position{} }

// VerifEvalKind returns the terminal evalDFA attributes to a state ("ERR" for none).
func VerifEvalKind(state int) string {
	l := &Lexer{in: verifStubInput{}}
	return string(l.evalDFA(state).Terminal)
}

// VerifNewWithBuffer builds a lexer over a reader of half-size n (the production size is bufferSize).
func VerifNewWithBuffer(filename string, src io.Reader, n int) (*Lexer, error) {
	in, err := input.New(filename, src, n)
	if err != nil {
		return nil, err
	}
	return &Lexer{in: in}, nil
}
