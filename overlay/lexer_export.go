package lexer

// VerifAdvanceDFA exposes the coded transition table to the verification harness.
func VerifAdvanceDFA(state int, r rune) int { return advanceDFA(state, r) }
