package parser

import (
	"github.com/moorara/algo/grammar"
	"github.com/moorara/algo/parser/lr"
)

// VerifProductions exposes the embedded production list to the verification harness.
func VerifProductions() []*grammar.Production { return productions }

// VerifTerminals exposes the embedded terminal list.
func VerifTerminals() []grammar.Terminal { return terminals }

// VerifNonTerminals exposes the embedded non-terminal list.
func VerifNonTerminals() []grammar.NonTerminal { return nonTerminals }

// VerifGrammar exposes the embedded grammar and precedences.
func VerifGrammar() (*grammar.CFG, lr.PrecedenceLevels) { return G, precedences }
