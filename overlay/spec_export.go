package spec

import auto "github.com/moorara/algo/automata"

// VerifRegexToDFA exposes the token-pattern pipeline to the verification harness.
func VerifRegexToDFA(regex string) (*auto.DFA, error) { return regexToDFA(regex) }

// VerifStringToDFA exposes the string-literal automaton to the verification harness.
func VerifStringToDFA(value string) *auto.DFA { return stringToDFA(value) }
