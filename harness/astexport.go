package main

import (
	"encoding/json"
	"flag"
	"fmt"
	"strconv"
	"strings"

	"github.com/moorara/algo/lexer"
	algoparser "github.com/moorara/algo/parser"
	"github.com/moorara/algo/parser/lr"

	ebnfparser "github.com/gardenbed/emerge/internal/ebnf/parser"
	ebnfast "github.com/gardenbed/emerge/internal/ebnf/parser/ast"
)

// GNode is the generic parse tree (parser.ParseAndBuildAST) with uniform fields.
type GNode struct {
	T   string  `json:"t"` // leaf | node
	K   string  `json:"k"` // terminal (leaf) or head non-terminal (node)
	Lx  string  `json:"lx"`
	Off int     `json:"off"`
	Ln  int     `json:"ln"`
	Col int     `json:"col"`
	B   []string `json:"b"` // body of the production the node claims to apply
	C   []GNode `json:"c"`
}

func genericTree(n algoparser.Node) GNode {
	switch v := n.(type) {
	case *algoparser.LeafNode:
		return GNode{T: "leaf", K: string(v.Terminal), Lx: v.Lexeme, Off: v.Position.Offset, Ln: v.Position.Line, Col: v.Position.Column, B: []string{}, C: []GNode{}}
	case *algoparser.InternalNode:
		g := GNode{T: "node", K: string(v.NonTerminal), B: []string{}, C: []GNode{}}
		if v.Production != nil {
			for _, s := range v.Production.Body {
				g.B = append(g.B, symName(s))
			}
			if string(v.Production.Head) != g.K {
				g.K = g.K + "!=" + string(v.Production.Head)
			}
		}
		for _, c := range v.Children {
			g.C = append(g.C, genericTree(c))
		}
		return g
	}
	return GNode{T: "unknown", B: []string{}, C: []GNode{}}
}

func leafNode(k, n string, s bool) RNode { return RNode{K: k, N: n, S: s, C: []RNode{}} }

func typedTerm(t string) (string, bool) {
	if strings.HasPrefix(t, `"`) {
		if u, err := strconv.Unquote(t); err == nil {
			return u, true
		}
		return t, true
	}
	return t, false
}

func typedRHS(r ebnfast.RHS) RNode {
	switch v := r.(type) {
	case *ebnfast.TerminalRHS:
		n, s := typedTerm(v.Terminal)
		return leafNode("t", n, s)
	case *ebnfast.NonTerminalRHS:
		return leafNode("nt", v.NonTerminal, false)
	case *ebnfast.EmptyRHS:
		return leafNode("eps", "", false)
	case *ebnfast.ConcatRHS:
		n := RNode{K: "ncat", C: []RNode{}}
		for _, o := range v.Ops {
			n.C = append(n.C, typedRHS(o))
		}
		return n
	case *ebnfast.AltRHS:
		n := RNode{K: "nalt", C: []RNode{}}
		for _, o := range v.Ops {
			n.C = append(n.C, typedRHS(o))
		}
		return n
	case *ebnfast.OptRHS:
		return RNode{K: "opt", C: []RNode{typedRHS(v.Op)}}
	case *ebnfast.StarRHS:
		return RNode{K: "star", C: []RNode{typedRHS(v.Op)}}
	case *ebnfast.PlusRHS:
		return RNode{K: "plus", C: []RNode{typedRHS(v.Op)}}
	}
	return leafNode("unknown", fmt.Sprintf("%T", r), false)
}

func assocName(a lr.Associativity) string {
	switch a {
	case lr.LEFT:
		return "left"
	case lr.RIGHT:
		return "right"
	}
	return "none"
}

func typedDecls(g *ebnfast.Grammar) []EDecl {
	out := []EDecl{}
	for _, d := range g.Decls {
		e := EDecl{Rhs: []RNode{}, Hs: []Handle{}}
		switch v := d.(type) {
		case *ebnfast.StringTokenDecl:
			e.K, e.Name, e.Dk, e.Val = "tok", v.Name, "str", v.Value
		case *ebnfast.RegexTokenDecl:
			e.K, e.Name, e.Dk, e.Val = "tok", v.Name, "pat", v.Regex
		case *ebnfast.RuleDecl:
			e.K, e.Name, e.Rhs = "rule", v.LHS, []RNode{typedRHS(v.RHS)}
		case *ebnfast.PrecedenceDecl:
			e.K, e.Assoc = "dir", assocName(v.Associativity)
			for _, h := range v.Handles {
				switch hv := h.(type) {
				case *ebnfast.TerminalHandle:
					n, s := typedTerm(hv.Terminal)
					e.Hs = append(e.Hs, Handle{K: "t", N: n, S: s, Rhs: []RNode{}})
				case *ebnfast.ProductionHandle:
					e.Hs = append(e.Hs, Handle{K: "r", Name: hv.LHS, Rhs: []RNode{typedRHS(hv.RHS)}})
				}
			}
		default:
			e.K = fmt.Sprintf("unknown %T", d)
		}
		out = append(out, e)
	}
	return out
}

// printTyped writes a typed tree back to EBNF text (our printer; the typed tree has no printer of its own).
func typedToks(name string, decls []EDecl) []PTok {
	var conv func(t RNode, top bool) RNode
	// n-ary typed nodes are converted to the binary printable form, adding the parentheses the tree structure requires
	conv = func(t RNode, top bool) RNode {
		switch t.K {
		case "ncat":
			var acc *RNode
			for _, c := range t.C {
				x := conv(c, false)
				if x.K == "alt" || x.K == "talt" || x.K == "cat" {
					x = RNode{K: "grp", C: []RNode{x}}
				}
				if acc == nil {
					y := x
					acc = &y
				} else {
					acc = &RNode{K: "cat", C: []RNode{*acc, x}}
				}
			}
			if acc == nil {
				return leafNode("eps", "", false)
			}
			return *acc
		case "nalt":
			ops := t.C
			var build func(i int) RNode
			build = func(i int) RNode {
				l := conv(ops[i], false)
				if l.K == "alt" || l.K == "talt" {
					l = RNode{K: "grp", C: []RNode{l}}
				}
				if i == len(ops)-1 {
					return l
				}
				if ops[i+1].K == "eps" && i+1 == len(ops)-1 {
					return RNode{K: "talt", C: []RNode{l}}
				}
				if ops[i+1].K == "eps" {
					// an empty alternative in the middle: (l |) | rest
					rest := RNode{K: "nalt", C: ops[i+2:]}
					return RNode{K: "alt", C: []RNode{{K: "grp", C: []RNode{{K: "talt", C: []RNode{l}}}}, conv(rest, false)}}
				}
				return RNode{K: "alt", C: []RNode{l, build(i + 1)}}
			}
			return build(0)
		case "opt", "star", "plus":
			return RNode{K: t.K, C: []RNode{conv(t.C[0], true)}}
		}
		return t
	}
	ds := []EDecl{}
	for _, d := range decls {
		e := d
		if d.K == "rule" {
			if len(d.Rhs) == 1 && d.Rhs[0].K == "eps" {
				e.Rhs = []RNode{}
			} else if len(d.Rhs) == 1 {
				e.Rhs = []RNode{conv(d.Rhs[0], true)}
			}
		}
		if d.K == "dir" {
			e.Hs = nil
			for _, h := range d.Hs {
				hh := h
				if h.K == "r" {
					if len(h.Rhs) == 1 && h.Rhs[0].K == "eps" {
						hh.Rhs = []RNode{}
					} else if len(h.Rhs) == 1 {
						hh.Rhs = []RNode{conv(h.Rhs[0], true)}
					}
				}
				e.Hs = append(e.Hs, hh)
			}
		}
		ds = append(ds, e)
	}
	return specToks(name, ds, true)
}

type AstArt struct {
	ID      string  `json:"id"`
	Fam     string  `json:"fam"`
	Text    string  `json:"text"`
	Toks    []PTok  `json:"toks"`
	Decls   []EDecl `json:"decls"`
	GenErr  string  `json:"generr"`
	Gen     []GNode `json:"gen"` // one root, or empty on error
	TypErr  string  `json:"typerr"`
	Name    string  `json:"name"`
	Typed   []EDecl `json:"typed"`
	TPos    []TPos  `json:"tpos"` // positions recorded in the typed tree: per declaration, and per handle of a directive
	RtSame  bool    `json:"rtsame"`  // typed(print(typed(text))) has the same structure as typed(text)
	RtEqual bool    `json:"rtequal"` // the real Equal method agrees on two parses of the reprinted text, and disagrees after an edit
	RtNote  string  `json:"rtnote"`
	Prods   []Prod  `json:"prods"`
	SpecOK  bool    `json:"specok"`
}

// TPos: where the typed tree says a declaration and the handles of a directive are ([offset, line, column]; -1 = none).
type TPos struct {
	D  []int   `json:"d"`
	Hs [][]int `json:"hs"`
}

func posTriple(n interface{ Pos() *lexer.Position }) []int {
	p := n.Pos()
	if p == nil {
		return []int{-1, -1, -1}
	}
	return []int{p.Offset, p.Line, p.Column}
}

func typedPositions(g *ebnfast.Grammar) []TPos {
	out := []TPos{}
	for _, d := range g.Decls {
		t := TPos{D: posTriple(d), Hs: [][]int{}}
		if v, ok := d.(*ebnfast.PrecedenceDecl); ok {
			for _, h := range v.Handles {
				t.Hs = append(t.Hs, posTriple(h))
			}
		}
		out = append(out, t)
	}
	return out
}

func cmdAstExport(args []string) error {
	fs := flag.NewFlagSet("ast-export", flag.ContinueOnError)
	in := fs.String("in", "gen_specs.ndjson", "")
	out := fs.String("out", "asts.ndjson", "")
	shard := fs.String("shard", "0/1", "i/n")
	if err := fs.Parse(args); err != nil {
		return err
	}
	var shI, shN int
	if _, err := fmt.Sscanf(*shard, "%d/%d", &shI, &shN); err != nil || shN < 1 {
		return fmt.Errorf("bad -shard")
	}
	w, err := newNDWriter(*out)
	if err != nil {
		return err
	}
	n := 0
	err = readNDJSON(*in, func(line []byte) error {
		n++
		if n%shN != shI {
			return nil
		}
		var s ESpec
		if err := json.Unmarshal(line, &s); err != nil {
			return err
		}
		normSpec(&s)
		// the declarations are followed by an end of line, alone or behind a comment, and the text may begin with one
		toks := specToks("t", s.Decls, true)
		text := layout(toks, []string{"", "/** head **/\n", "", "// head\n\n", ""}[n%5], " ", eols[n%len(eols)])
		a := AstArt{ID: fmt.Sprintf("%s-%d", s.Fam, n), Fam: s.Fam, Text: text, Toks: toks, Decls: s.Decls, Gen: []GNode{}, Typed: []EDecl{}, TPos: []TPos{}, Prods: []Prod{}}
		if err := safely(func() error {
			p, err := ebnfparser.New("t.ebnf", strings.NewReader(text))
			if err != nil {
				return err
			}
			root, err := p.ParseAndBuildAST()
			if err != nil {
				return err
			}
			a.Gen = []GNode{genericTree(root)}
			return nil
		}); err != nil {
			a.GenErr = err.Error()
		}
		var g1 *ebnfast.Grammar
		if err := safely(func() error {
			g, err := ebnfast.Parse("t.ebnf", strings.NewReader(text))
			if err != nil {
				return err
			}
			if g == nil {
				return fmt.Errorf("nil tree without error")
			}
			g1 = g
			a.Name = g.Name
			a.Typed = typedDecls(g)
			a.TPos = typedPositions(g)
			return nil
		}); err != nil {
			a.TypErr = err.Error()
		}
		if g1 != nil {
			// round trip: print the typed tree, parse, print again, parse again
			note := safely(func() error {
				t2 := layout(typedToks(a.Name, a.Typed), "", " ", "\n")
				g2, err := ebnfast.Parse("t.ebnf", strings.NewReader(t2))
				if err != nil {
					return fmt.Errorf("reprinted text rejected: %v: %q", err, t2)
				}
				d2 := typedDecls(g2)
				j1, _ := json.Marshal(a.Typed)
				j2, _ := json.Marshal(d2)
				a.RtSame = string(j1) == string(j2) && g2.Name == a.Name
				t3 := layout(typedToks(g2.Name, d2), "", " ", "\n")
				g3, err := ebnfast.Parse("t.ebnf", strings.NewReader(t3))
				if err != nil {
					return fmt.Errorf("second reprint rejected: %v", err)
				}
				a.RtEqual = t2 == t3 && g2.Equal(g3) && g3.Equal(g2)
				return nil
			})
			if note != nil {
				a.RtNote = note.Error()
			}
		}
		d := dumpSpec(a.ID, "t.ebnf", text)
		a.SpecOK, a.Prods = d.OK, d.Prods
		return w.Write(a)
	})
	if err != nil {
		return err
	}
	return w.Close()
}

var _ = lexer.Position{}

func init() {
	commands["ast-export"] = cmdAstExport
}
