package main

import (
	"os"
	"encoding/json"
	"flag"
	"fmt"
	"regexp"
	"strings"

	ebnfparser "github.com/gardenbed/emerge/internal/ebnf/parser"
	ebnfast "github.com/gardenbed/emerge/internal/ebnf/parser/ast"
	"github.com/gardenbed/emerge/internal/ebnf/parser/spec"
)

var allKinds = []string{"=", ";", "|", "(", ")", "[", "]", "{", "}", "{{", "}}", "<", ">",
	"grammar", "@left", "@right", "@none", "IDENT", "TOKEN", "STRING", "REGEX", "PREDEF"}

var sampleSrc = map[string]string{"IDENT": "zz", "TOKEN": "TK", "STRING": `"s"`, "REGEX": "/r/", "PREDEF": "$ID"}

func sampleTok(k string) PTok {
	if s, ok := sampleSrc[k]; ok {
		lx := s
		if k == "STRING" || k == "REGEX" {
			lx = s[1 : len(s)-1]
		}
		return PTok{K: k, Src: s, Lx: lx}
	}
	return punct(k)
}

type ErrObs struct {
	OK      bool   `json:"ok"`
	Msg     string `json:"msg"`
	HasPos  bool   `json:"haspos"`
	HasFile bool   `json:"hasfile"`
	Ln      int    `json:"ln"`
	Col     int    `json:"col"`
}

var filePosRe = regexp.MustCompile(`(t\.ebnf):(\d+):(\d+)`)

func observe(f func() error) ErrObs {
	err := safely(f)
	o := ErrObs{OK: err == nil}
	if err != nil {
		o.Msg = err.Error()
		if m := filePosRe.FindStringSubmatch(o.Msg); m != nil {
			o.HasPos, o.HasFile = true, true
			fmt.Sscanf(m[2], "%d", &o.Ln)
			fmt.Sscanf(m[3], "%d", &o.Col)
		}
		if len(o.Msg) > 300 {
			o.Msg = o.Msg[:300]
		}
	}
	return o
}

type Mutant struct {
	ID    string   `json:"id"`
	Mut   string   `json:"mut"`
	Text  string   `json:"text"`
	Kinds []string `json:"kinds"`
	Pos   [][]int  `json:"pos"` // line, column of every token
	Lens  []int    `json:"lens"` // length of every token in characters (tokens do not span lines)
	P     ErrObs   `json:"p"`   // parser.Parse (syntax only)
	A     ErrObs   `json:"a"`   // ast.Parse
	S     ErrObs   `json:"s"`   // spec.Parse (syntax + semantics)
}

// what a text may start with: every reported position shifts with it
var leads = []string{"", "\n\n  ", " ", "\t", "\r\n", "\n", "", "   \n"}
var leadCounter int

// what may follow a declaration: the end of the line, alone or behind a comment (closers with an even and an odd number of stars)
var eols = []string{"\n", " /** c **/\n", "\n// c\n", " /* a ** b **/\n", "\n", "\n/***/\n", " /****/ \n"}

func nextEol() string { return eols[leadCounter%len(eols)] }

func runMutant(id, mut string, toks []PTok) Mutant {
	leadCounter++
	return runMutantLead(id, mut, toks, leads[leadCounter%len(leads)])
}

func runMutantLead(id, mut string, toks []PTok, lead string) Mutant {
	ts := make([]PTok, len(toks))
	copy(ts, toks)
	for i := range ts {
		ts[i].End = ts[i].K == ";"
	}
	text := layout(ts, lead, " ", nextEol())
	m := Mutant{ID: id, Mut: mut, Text: text, Kinds: []string{}, Pos: [][]int{}, Lens: []int{}}
	for _, t := range ts {
		m.Kinds = append(m.Kinds, t.K)
		m.Pos = append(m.Pos, []int{t.Ln, t.Col})
		m.Lens = append(m.Lens, len([]rune(t.Src)))
	}
	m.P = observe(func() error {
		p, err := ebnfparser.New("t.ebnf", strings.NewReader(text))
		if err != nil {
			return err
		}
		return p.Parse(nil, nil)
	})
	m.A = observe(func() error {
		g, err := ebnfast.Parse("t.ebnf", strings.NewReader(text))
		if err == nil && g == nil {
			return fmt.Errorf("nil tree without error")
		}
		return err
	})
	m.S = observe(func() error {
		s, err := spec.Parse("t.ebnf", strings.NewReader(text))
		if err == nil && s == nil {
			return fmt.Errorf("nil result without error")
		}
		return err
	})
	return m
}

func cmdSyntaxMutants(args []string) error {
	fs := flag.NewFlagSet("syntax-mutants", flag.ContinueOnError)
	in := fs.String("in", "gen_specs.ndjson", "")
	out := fs.String("out", "mutants.ndjson", "")
	shard := fs.String("shard", "0/1", "i/n")
	longSpecs := fs.Int("long-specs", 1, "how many of the first specifications also get long variants")
	longSizes := fs.Int("long-sizes", 1, "1: around 4096 bytes, 2: also around 8192 bytes")
	if err := fs.Parse(args); err != nil {
		return err
	}
	var shI, shN int
	if _, err := fmt.Sscanf(*shard, "%d/%d", &shI, &shN); err != nil || shN < 1 {
		return fmt.Errorf("bad -shard")
	}
	w, err := newNDWriter(*out)
	if err != nil {
		return err
	}
	n := 0
	err = readNDJSON(*in, func(line []byte) error {
		n++
		if n%shN != shI {
			return nil
		}
		var s ESpec
		if err := json.Unmarshal(line, &s); err != nil {
			return err
		}
		normSpec(&s)
		_, toks := printSpec(s)
		emit := func(mut string, ts []PTok) error {
			return w.Write(runMutant(fmt.Sprintf("%s-%d/%s", s.Fam, n, mut), mut, ts))
		}
		if err := emit("orig", toks); err != nil {
			return err
		}
		// long texts: the same specification behind enough filler rules to pass 4096 (8192) bytes, every alignment of
		// the last declarations against those sizes, with a mutation among the last tokens - an error far into a long
		// file must be reported like one in a short file
		if n <= *longSpecs && len(toks) >= 6 {
			for _, fill := range longFills(*longSizes) {
				var long []PTok
				long = append(long, toks[:3]...) // grammar name ;
				for k := 0; k < fill; k++ {
					long = append(long, PTok{K: "IDENT", Src: fmt.Sprintf("r%04d", k), Lx: fmt.Sprintf("r%04d", k)}, punct("="), PTok{K: "STRING", Src: `"a"`, Lx: "a"}, punct(";"))
				}
				long = append(long, toks[3:]...)
				for pad := 0; pad <= 40; pad++ {
					lead := strings.Repeat(" ", pad)
					last := len(long) - 1
					cases := map[string][]PTok{
						"ok":        long,
						"del-last":  long[:last],
						"rep-last":  append(append([]PTok{}, long[:last]...), sampleTok("=")),
						"ins-3":     append(append(append([]PTok{}, long[:last-3]...), sampleTok(")")), long[last-3:]...),
						"trunc-2":   long[:last-2],
						"rep-5":     append(append(append([]PTok{}, long[:last-5]...), sampleTok("=")), long[last-4:]...),
					}
					for _, mut := range []string{"ok", "del-last", "rep-last", "ins-3", "trunc-2", "rep-5"} {
						if err := w.Write(runMutantLead(fmt.Sprintf("%s-%d/long%d/pad%d/%s", s.Fam, n, fill, pad, mut), fmt.Sprintf("long%d/pad%d/%s", fill, pad, mut), cases[mut], lead)); err != nil {
							return err
						}
					}
				}
			}
		}
		for i := range toks {
			del := append(append([]PTok{}, toks[:i]...), toks[i+1:]...)
			if err := emit(fmt.Sprintf("del@%d", i), del); err != nil {
				return err
			}
			if err := emit(fmt.Sprintf("trunc@%d", i), append([]PTok{}, toks[:i]...)); err != nil {
				return err
			}
			for _, k := range allKinds {
				if k != toks[i].K {
					rep := append([]PTok{}, toks...)
					rep[i] = sampleTok(k)
					if err := emit(fmt.Sprintf("rep@%d:%s", i, k), rep); err != nil {
						return err
					}
				}
				ins := append(append(append([]PTok{}, toks[:i]...), sampleTok(k)), toks[i:]...)
				if err := emit(fmt.Sprintf("ins@%d:%s", i, k), ins); err != nil {
					return err
				}
			}
		}
		return nil
	})
	if err != nil {
		return err
	}
	return w.Close()
}

// number of filler rules (13 bytes each: `rNNNN = "a" ;` and a line end) that bring a text just below 4096 / 8192 bytes
func longFills(sizes int) []int {
	if sizes >= 2 {
		return []int{312, 627}
	}
	return []int{312}
}

func init() {
	commands["syntax-mutants"] = cmdSyntaxMutants
}

var strays = []string{"#", "'", "@lef", "$", "\"ab", "/ab", "/* x", "\\", "!", "@", "$a", "\"", "%", "`", "@leftx", "//x", "/*y*/", "A", "$9", "$_X", "$_",
	"\f", "\v", "\u00a0", "\u0085", // blanks that are not white space for the documented scanner
	"\u0430", "\u0161", "\u0141", "\u015f", "\u0131", "\U00010061"} // beyond U+00FF, low byte a digit / letter / underscore

// lexical-mutants: a stray or unterminated lexical element inserted at every token boundary of a valid
// specification, with the diagnostic of the whole pipeline (spec.Parse); decided by FrontEndCheck.tla.
type FrontRec struct {
	ID  string `json:"id"`
	Cps []int  `json:"cps"`
	S   ErrObs `json:"s"`
}

func frontRec(id, text string) FrontRec {
	return FrontRec{ID: id, Cps: cpsOf(text), S: observe(func() error {
		sp, err := spec.Parse("t.ebnf", strings.NewReader(text))
		if err == nil && sp == nil {
			return fmt.Errorf("nil result without error")
		}
		return err
	})}
}

func cmdLexicalMutants(args []string) error {
	fs := flag.NewFlagSet("lexical-mutants", flag.ContinueOnError)
	in := fs.String("in", "gen_specs.ndjson", "")
	out := fs.String("out", "fronts.ndjson", "")
	shard := fs.String("shard", "0/1", "i/n")
	if err := fs.Parse(args); err != nil {
		return err
	}
	var shI, shN int
	if _, err := fmt.Sscanf(*shard, "%d/%d", &shI, &shN); err != nil || shN < 1 {
		return fmt.Errorf("bad -shard")
	}
	w, err := newNDWriter(*out)
	if err != nil {
		return err
	}
	n := 0
	err = readNDJSON(*in, func(line []byte) error {
		n++
		if n%shN != shI {
			return nil
		}
		var s ESpec
		if err := json.Unmarshal(line, &s); err != nil {
			return err
		}
		normSpec(&s)
		_, toks := printSpec(s)
		for i := 0; i <= len(toks); i++ {
			for _, stray := range strays {
				// the stray text stands alone, is glued to the token before it, to the token after it, or the whole text has no blanks
				for _, glue := range []string{"none", "left", "right", "all"} {
					var ts []PTok
					switch {
					case glue == "left" && i > 0:
						ts = append([]PTok{}, toks...)
						ts[i-1].Src += stray
					case glue == "right" && i < len(toks):
						ts = append([]PTok{}, toks...)
						ts[i].Src = stray + ts[i].Src
					case glue == "left" || glue == "right":
						continue
					default:
						ts = append(append(append([]PTok{}, toks[:i]...), PTok{K: "STRAY", Src: stray}), toks[i:]...)
					}
					for j := range ts {
						ts[j].End = ts[j].K == ";"
					}
					sep := " "
					if glue == "all" {
						sep = "" // no blanks at all: tokens and the stray text run together
					}
					leadCounter++
					eol := "\n"
					if sep != "" {
						eol = nextEol()
					}
					text := layout(ts, leads[leadCounter%len(leads)], sep, eol)
					if err := w.Write(frontRec(fmt.Sprintf("%s-%d/stray@%d:%s:%v", s.Fam, n, i, stray, glue), text)); err != nil {
						return err
					}
				}
			}
		}
		return nil
	})
	if err != nil {
		return err
	}
	return w.Close()
}

// replay-one: the observations of ONE recorded text (replay file of C20): kind "syntax" carries the token kinds, positions
// and lengths the generator printed; kind "front-end" only the text.
func cmdReplayOne(args []string) error {
	fs := flag.NewFlagSet("replay-one", flag.ContinueOnError)
	in := fs.String("in", "", "replay file")
	out := fs.String("out", "", "")
	if err := fs.Parse(args); err != nil {
		return err
	}
	var rp struct {
		Kind  string   `json:"kind"`
		Text  string   `json:"text"`
		Kinds []string `json:"kinds"`
		Pos   [][]int  `json:"pos"`
		Lens  []int    `json:"lens"`
	}
	data, err := os.ReadFile(*in)
	if err != nil {
		return err
	}
	if err := json.Unmarshal(data, &rp); err != nil {
		return err
	}
	w, err := newNDWriter(*out)
	if err != nil {
		return err
	}
	if rp.Kind == "front-end" {
		if err := w.Write(frontRec("replay", rp.Text)); err != nil {
			return err
		}
		return w.Close()
	}
	text := rp.Text
	m := Mutant{ID: "replay", Mut: "replay", Text: text, Kinds: rp.Kinds, Pos: rp.Pos, Lens: rp.Lens}
	if m.Kinds == nil {
		m.Kinds = []string{}
	}
	if m.Pos == nil {
		m.Pos = [][]int{}
	}
	if m.Lens == nil {
		m.Lens = []int{}
	}
	m.P = observe(func() error {
		p, err := ebnfparser.New("t.ebnf", strings.NewReader(text))
		if err != nil {
			return err
		}
		return p.Parse(nil, nil)
	})
	m.A = observe(func() error {
		g, err := ebnfast.Parse("t.ebnf", strings.NewReader(text))
		if err == nil && g == nil {
			return fmt.Errorf("nil tree without error")
		}
		return err
	})
	m.S = observe(func() error {
		s, err := spec.Parse("t.ebnf", strings.NewReader(text))
		if err == nil && s == nil {
			return fmt.Errorf("nil result without error")
		}
		return err
	})
	if err := w.Write(m); err != nil {
		return err
	}
	return w.Close()
}

func init() {
	commands["lexical-mutants"] = cmdLexicalMutants
	commands["replay-one"] = cmdReplayOne
}
