package main

import (
	"os/exec"
	"crypto/sha1"
	"encoding/json"
	"flag"
	"fmt"
	"os"
	"path/filepath"
	"sort"
	"strings"
	"sync"

	"github.com/gardenbed/charm/ui"

	"github.com/gardenbed/emerge/internal/ebnf/parser/spec"
	"github.com/gardenbed/emerge/internal/generate/golang"
)

type PItem struct {
	ID   string `json:"id"`
	Kind string `json:"kind"` // spec | pattern
	Text string `json:"text"`
}

func sha(s string) string { return fmt.Sprintf("%x", sha1.Sum([]byte(s)))[:16] }

// processItem runs the whole in-memory pipeline on one item and returns a digest of everything it produced.
func normaliseDir(msg, dir string) string { return strings.ReplaceAll(msg, dir, "<dir>") }

func processItem(it PItem) string {
	var b strings.Builder
	err := safely(func() error {
		if it.Kind == "pattern" {
			d, err := spec.VerifRegexToDFA(it.Text)
			if err != nil {
				fmt.Fprintf(&b, "ERR %s", err)
				return nil
			}
			b.WriteString(d.String())
			return nil
		}
		s, err := spec.Parse("t.ebnf", strings.NewReader(it.Text))
		if err != nil {
			fmt.Fprintf(&b, "ERR %s", err)
			return nil
		}
		d := dumpOf(it.ID, s)
		j, _ := json.Marshal(d)
		b.Write(j)
		dfa, tm, err := s.DFA()
		if err != nil {
			fmt.Fprintf(&b, "DFAERR %s", err)
		} else {
			b.WriteString(dfa.String())
			keys := []string{}
			for t := range tm {
				keys = append(keys, string(t))
			}
			sort.Strings(keys)
			for _, k := range keys {
				fmt.Fprintf(&b, "%s:%v;", k, tm[grammarTerminal(k)])
			}
		}
		T, err := s.LALRParsingTable()
		if err != nil {
			fmt.Fprintf(&b, "LALRERR %s", err)
		} else {
			b.WriteString(T.String())
		}
		// the emitted package: what the generator writes is part of the outcome too
		dir, derr := os.MkdirTemp("", "verif-purity-")
		if derr == nil {
			if gerr := golang.Generate(ui.NewNop(), &golang.Params{Path: dir, Spec: s}); gerr != nil {
				fmt.Fprintf(&b, "GENERR %s", normaliseDir(gerr.Error(), dir))
			}
			ents, _ := os.ReadDir(filepath.Join(dir, s.Name))
			for _, en := range ents {
				data, _ := os.ReadFile(filepath.Join(dir, s.Name, en.Name()))
				fmt.Fprintf(&b, "%s %s\n", en.Name(), sha(string(data)))
			}
			os.RemoveAll(dir)
		}
		return nil
	})
	if err != nil {
		fmt.Fprintf(&b, "PANIC %s", err)
	}
	return sha(b.String())
}

func readItems(path string) ([]PItem, error) {
	var items []PItem
	err := readNDJSON(path, func(line []byte) error {
		var it PItem
		if err := json.Unmarshal(line, &it); err != nil {
			return err
		}
		items = append(items, it)
		return nil
	})
	return items, err
}

// purity-one: the digest of ONE item processed alone in a fresh process (the isolated baseline).
func cmdPurityOne(args []string) error {
	fs := flag.NewFlagSet("purity-one", flag.ContinueOnError)
	in := fs.String("in", "", "")
	index := fs.Int("index", 0, "")
	if err := fs.Parse(args); err != nil {
		return err
	}
	items, err := readItems(*in)
	if err != nil {
		return err
	}
	fmt.Printf("DIGEST %s %s\n", items[*index].ID, processItem(items[*index]))
	return nil
}

// purity-seq: items processed one after the other in one process, in every given order.
func cmdPuritySeq(args []string) error {
	fs := flag.NewFlagSet("purity-seq", flag.ContinueOnError)
	in := fs.String("in", "", "")
	orders := fs.String("orders", "", "ndjson of [index...]")
	out := fs.String("out", "", "")
	one := fs.String("one", "", "child mode: one order as JSON; the records are printed to stdout")
	if err := fs.Parse(args); err != nil {
		return err
	}
	items, err := readItems(*in)
	if err != nil {
		return err
	}
	if *one != "" {
		var ord []int
		if err := json.Unmarshal([]byte(*one), &ord); err != nil {
			return err
		}
		enc := json.NewEncoder(os.Stdout)
		for pos, k := range ord {
			if err := enc.Encode(map[string]any{"base": items[k].ID, "variant": fmt.Sprintf("order %v position %d", ord, pos), "hash": processItem(items[k])}); err != nil {
				return err
			}
		}
		return nil
	}
	// every order runs in a process of its own, so that a difference is a consequence of THAT order alone
	var ords []string
	err = readNDJSON(*orders, func(line []byte) error {
		ords = append(ords, string(line))
		return nil
	})
	if err != nil {
		return err
	}
	outs := make([][]byte, len(ords))
	errs := make([]error, len(ords))
	sem := make(chan struct{}, 12)
	var wg sync.WaitGroup
	for i, o := range ords {
		wg.Add(1)
		sem <- struct{}{}
		go func(i int, o string) {
			defer wg.Done()
			defer func() { <-sem }()
			outs[i], errs[i] = exec.Command(os.Args[0], "purity-seq", "-in", *in, "-one", o).Output()
		}(i, o)
	}
	wg.Wait()
	f, err := os.Create(*out)
	if err != nil {
		return err
	}
	defer f.Close()
	for i := range ords {
		if errs[i] != nil {
			return fmt.Errorf("order %s: %v", ords[i], errs[i])
		}
		if _, err := f.Write(outs[i]); err != nil {
			return err
		}
	}
	return nil
}

// purity-conc: n goroutines, each processing its own item again and again while the others run.
func cmdPurityConc(args []string) error {
	fs := flag.NewFlagSet("purity-conc", flag.ContinueOnError)
	in := fs.String("in", "", "")
	out := fs.String("out", "", "")
	n := fs.Int("n", 8, "")
	iters := fs.Int("iters", 30, "")
	if err := fs.Parse(args); err != nil {
		return err
	}
	items, err := readItems(*in)
	if err != nil {
		return err
	}
	type res struct {
		g, it int
		id    string
		h     string
	}
	// every goroutine keeps its own results: a shared lock would order the goroutines' accesses and hide races from the detector
	per := make([][]res, *n)
	var wg sync.WaitGroup
	for g := 0; g < *n; g++ {
		wg.Add(1)
		go func(g int) {
			defer wg.Done()
			for k := 0; k < *iters; k++ {
				it := items[(g+k*(*n+1))%len(items)]
				h := processItem(it)
				per[g] = append(per[g], res{g, k, it.ID, h})
			}
		}(g)
	}
	wg.Wait()
	var all []res
	for _, p := range per {
		all = append(all, p...)
	}
	w, err := newNDWriter(*out)
	if err != nil {
		return err
	}
	for _, r := range all {
		if err := w.Write(map[string]any{"base": r.id, "variant": fmt.Sprintf("goroutine %d iteration %d", r.g, r.it), "hash": r.h}); err != nil {
			return err
		}
	}
	return w.Close()
}

// repeat-gen: the real generator run k times in one process for every specification (C15, in-process repeats).
func cmdRepeatGen(args []string) error {
	fs := flag.NewFlagSet("repeat-gen", flag.ContinueOnError)
	in := fs.String("in", "", "")
	out := fs.String("out", "", "")
	root := fs.String("root", "", "")
	k := fs.Int("k", 5, "")
	if err := fs.Parse(args); err != nil {
		return err
	}
	items, err := readItems(*in)
	if err != nil {
		return err
	}
	w, err := newNDWriter(*out)
	if err != nil {
		return err
	}
	for _, it := range items {
		for run := 0; run < *k; run++ {
			var b strings.Builder
			e := safely(func() error {
				s, err := spec.Parse("t.ebnf", strings.NewReader(it.Text))
				if err != nil {
					fmt.Fprintf(&b, "PARSE ERR %s\n", err)
					return nil
				}
				// what was derived from the text (productions with their generated names, definitions, precedences)
				if js, err := json.Marshal(dumpOf(it.ID, s)); err == nil {
					fmt.Fprintf(&b, "SPEC %s\n", sha(string(js)))
				}
				dir := filepath.Join(*root, fmt.Sprintf("%s-%d", it.ID, run))
				if err := os.MkdirAll(dir, 0o755); err != nil {
					return err
				}
				if err := golang.Generate(ui.NewNop(), &golang.Params{Path: dir, Spec: s}); err != nil {
					fmt.Fprintf(&b, "GENERATE ERR %s\n", err)
				}
				ents, _ := os.ReadDir(filepath.Join(dir, s.Name))
				for _, en := range ents {
					data, _ := os.ReadFile(filepath.Join(dir, s.Name, en.Name()))
					fmt.Fprintf(&b, "%s %s\n", en.Name(), sha(string(data)))
				}
				os.RemoveAll(dir)
				return nil
			})
			if e != nil {
				fmt.Fprintf(&b, "PANIC %s", e)
			}
			if err := w.Write(map[string]any{"base": it.ID, "variant": fmt.Sprintf("in-process run %d", run), "hash": sha(b.String()), "detail": b.String()}); err != nil {
				return err
			}
		}
	}
	return w.Close()
}

func init() {
	commands["purity-one"] = cmdPurityOne
	commands["purity-seq"] = cmdPuritySeq
	commands["purity-conc"] = cmdPurityConc
	commands["repeat-gen"] = cmdRepeatGen
}
