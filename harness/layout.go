package main

import (
	"crypto/sha1"
	"encoding/json"
	"flag"
	"fmt"
	"io"
	"sort"
	"strings"

	"github.com/moorara/algo/lexer"

	ebnflexer "github.com/gardenbed/emerge/internal/ebnf/lexer"
)

// ---- reader traces of the real EBNF lexer (C13) ----

type ROp struct {
	Op  string `json:"op"`
	K   string `json:"k"`
	R   int    `json:"r"`
	Lx  []int  `json:"lx"`
	Off int    `json:"off"`
	Ln  int    `json:"ln"`
	Col int    `json:"col"`
}

type RTrace struct {
	ID      string `json:"id"`
	Src     []int  `json:"src"`
	Ops     []ROp  `json:"ops"`
	Fail    string `json:"fail"`
	Lenient bool   `json:"lenient"`
	N       int    `json:"n"`
}

func readerTrace(id, text string) RTrace {
	// the lexer appends a line feed to what it reads: that is the source its reader sees
	tr := RTrace{ID: id, Src: cpsOf(text + "\n"), Ops: []ROp{}, Lenient: true}
	err := safely(func() error {
		l, err := ebnflexer.New("t.ebnf", strings.NewReader(text))
		if err != nil {
			return err
		}
		ebnflexer.VerifRecord(l, func(op string, r rune, s string, p lexer.Position, err error) {
			o := ROp{Op: op, Lx: []int{}}
			switch op {
			case "Next":
				if err == io.EOF {
					o.K = "eof"
				} else if err != nil {
					o.K = "err"
				} else {
					o.K, o.R = "rune", int(r)
				}
			case "Retract":
				o.K = "ok"
			case "Lexeme":
				o.K, o.Lx, o.Off, o.Ln, o.Col = "lexeme", cpsOf(s), p.Offset, p.Line, p.Column
			case "Skip":
				o.K, o.Off, o.Ln, o.Col = "pos", p.Offset, p.Line, p.Column
			}
			tr.Ops = append(tr.Ops, o)
		})
		for k := 0; k < 1000000; k++ {
			if _, err := l.NextToken(); err != nil {
				return nil
			}
		}
		return fmt.Errorf("lexer does not terminate")
	})
	if err != nil {
		tr.Fail = err.Error()
	}
	return tr
}

// ---- layouts and paddings of one specification (C13) ----

type LayoutRec struct {
	Base    string `json:"base"`
	Variant string `json:"variant"`
	OK      bool   `json:"ok"`
	Hash    string `json:"hash"`    // structure of the result (no positions) or the normalised error text
	Ref     string `json:"ref"`     // the same for the canonical layout of the same token sequence
	PosOK   bool   `json:"posok"`   // every reported position is the printed position of the token it belongs to
	Note    string `json:"note"`
	Len     int    `json:"len"`
}

// structureHash: what emerge derives, without positions.
func structureHash(d SpecDump) string {
	c := d
	c.ID = ""
	defs := make([]DefDump, len(c.Defs))
	for i, x := range c.Defs {
		x.Pos = nil
		defs[i] = x
	}
	c.Defs = defs
	if !c.OK {
		// the order of diagnostics is C15's business: compare them as a set, positions blanked
		lines := strings.Split(posRe.ReplaceAllString(c.Err, "t.ebnf:L:C"), "\n")
		sort.Strings(lines)
		c.Err = strings.Join(lines, "\n")
	}
	b, _ := json.Marshal(c)
	return fmt.Sprintf("%x", sha1.Sum(b))[:16]
}

// positionsOK: the position of every token definition is where its TOKEN was printed; an error position is a printed token position.
func positionsOK(d SpecDump, toks []PTok) (bool, string) {
	at := map[string][]int{}
	all := map[string]bool{}
	for i, t := range toks {
		all[fmt.Sprintf("%d:%d", t.Ln, t.Col)] = true
		if t.K == "TOKEN" && i+1 < len(toks) && toks[i+1].K == "=" && (i == 0 || toks[i-1].End || toks[i-1].K == ";" || toks[i-1].K == "IDENT" || toks[i-1].K == "STRING" || toks[i-1].K == "REGEX" || toks[i-1].K == "PREDEF" || toks[i-1].K == ">" || toks[i-1].K == "TOKEN") {
			if _, dup := at[t.Lx]; !dup {
				at[t.Lx] = []int{t.Off, t.Ln, t.Col}
			}
		}
	}
	if d.OK {
		for _, df := range d.Defs {
			if len(df.Pos) == 3 {
				want, ok := at[df.T]
				if !ok || want[0] != df.Pos[0] || want[1] != df.Pos[1] || want[2] != df.Pos[2] {
					return false, fmt.Sprintf("definition %s reported at %v, printed at %v", df.T, df.Pos, want)
				}
			}
		}
		return true, ""
	}
	for _, m := range posRe.FindAllStringSubmatch(d.Err, -1) {
		if !all[m[1]+":"+m[2]] {
			return false, fmt.Sprintf("error position %s:%s is not the position of a token", m[1], m[2])
		}
	}
	return true, ""
}

func cmdLayoutSweep(args []string) error {
	fs := flag.NewFlagSet("layout-sweep", flag.ContinueOnError)
	in := fs.String("in", "gen_specs.ndjson", "")
	out := fs.String("out", "layouts.ndjson", "")
	traces := fs.String("traces", "", "also write reader traces of the real lexer for a few layouts")
	maxpad := fs.Int("maxpad", 2*4096+64, "largest padding")
	step := fs.Int("step", 1, "padding step outside the critical windows")
	only := fs.String("only", "", "emit the canonical layout and this variant only (replay)")
	shard := fs.String("shard", "0/1", "i/n")
	if err := fs.Parse(args); err != nil {
		return err
	}
	var shI, shN int
	if _, err := fmt.Sscanf(*shard, "%d/%d", &shI, &shN); err != nil || shN < 1 {
		return fmt.Errorf("bad -shard")
	}
	w, err := newNDWriter(*out)
	if err != nil {
		return err
	}
	var tw *ndWriter
	if *traces != "" {
		if tw, err = newNDWriter(fmt.Sprintf("%s.%d", *traces, shI)); err != nil {
			return err
		}
	}
	critical := func(p int) bool {
		for _, b := range []int{0, 4096, 8192} {
			if p >= b-70 && p <= b+8 {
				return true
			}
		}
		return false
	}
	n := 0
	err = readNDJSON(*in, func(line []byte) error {
		n++
		if n%shN != shI {
			return nil
		}
		var s ESpec
		if err := json.Unmarshal(line, &s); err != nil {
			return err
		}
		normSpec(&s)
		base := fmt.Sprintf("%s-%d", s.Fam, n)
		for _, optSemi := range []bool{true, false} {
			toks := specToks("t", s.Decls, optSemi)
			ref := ""
			emit := func(variant, lead, sep, eol string, stripFinal bool) error {
				if *only != "" && variant != "canonical" && variant != *only {
					return nil
				}
				ts := make([]PTok, len(toks))
				copy(ts, toks)
				text := layout(ts, lead, sep, eol)
				if stripFinal {
					text = strings.TrimRight(text, " \t\n")
				}
				d := dumpSpec(base, "t.ebnf", text)
				h := structureHash(d)
				if ref == "" {
					ref = h
				}
				ok, note := positionsOK(d, ts)
				rec := LayoutRec{Base: fmt.Sprintf("%s/semi=%v", base, optSemi), Variant: variant, OK: d.OK, Hash: h, Ref: ref, PosOK: ok, Note: note, Len: len(text)}
				if tw != nil && (variant == "canonical" || strings.HasPrefix(variant, "sep") || variant == "pad-sp-4090" || variant == "nofinal") {
					if err := tw.Write(readerTrace(rec.Base+"/"+variant, text)); err != nil {
						return err
					}
				}
				return w.Write(rec)
			}
			if err := emit("canonical", "", " ", "\n", false); err != nil {
				return err
			}
			seps := []string{"\n", "\t", "  ", " /* c */ ", "\n// c\n", "\r\n", " /**/ ",
				// the shapes of a block comment: runs of stars of either parity before the closing slash, stars and slashes inside
				" /** c **/ ", " /***/ ", " /****/ ", " /* a * b ** c *** d */ ", " /* / * / */ ", " /*//*/ ", "\n//\n", "\n// c /* not a block\n", " /* \n * x\n **/ ",
				// a lone carriage return is a line end too: it ends a // comment
				"\r", " // c\r", "\r// c\r\r",
				// block comments spanning lines that end in CR LF or in a lone CR, also directly behind a star
				" /* a\r\n b */ ", " /*\r\n * x *\r\n ***/ ", " /* a\r b *\r*/ "}
			eols := []string{" ", "\n\n", " // end\n", "\t\n /* x */\n", " // end\r", "\r"}
			for i, sp := range seps {
				if err := emit(fmt.Sprintf("sep%d", i), "", sp, "\n", false); err != nil {
					return err
				}
			}
			for i, e := range eols {
				if err := emit(fmt.Sprintf("eol%d", i), "", " ", e, false); err != nil {
					return err
				}
			}
			if err := emit("nofinal", "", " ", "\n", true); err != nil {
				return err
			}
			if err := emit("nofinal-nl", "", "\n", " ", true); err != nil {
				return err
			}
			// exact file sizes around the block sizes of readers (4096, 8192), with and without a final newline,
			// the text ending in its last token
			{
				ts := make([]PTok, len(toks))
				copy(ts, toks)
				plain := layout(ts, "", " ", "\n")
				stripped := strings.TrimRight(plain, " \t\n")
				for _, size := range []int{4095, 4096, 4097, 8191, 8192, 8193, 12288} {
					if size > len(plain) {
						if err := emit(fmt.Sprintf("size-%d-nl", size), strings.Repeat(" ", size-len(plain)), " ", "\n", false); err != nil {
							return err
						}
						if err := emit(fmt.Sprintf("size-%d-nonl", size), strings.Repeat(" ", size-len(stripped)), " ", "\n", true); err != nil {
							return err
						}
						if err := emit(fmt.Sprintf("size-%d-nonl-lines", size), strings.Repeat("\n", size-len(stripped)), " ", "\n", true); err != nil {
							return err
						}
					}
				}
			}
			if !optSemi {
				continue
			}
			for p := 0; p <= *maxpad; p++ {
				if !critical(p) && p%*step != 0 {
					continue
				}
				if err := emit(fmt.Sprintf("pad-sp-%d", p), strings.Repeat(" ", p), " ", "\n", false); err != nil {
					return err
				}
				if err := emit(fmt.Sprintf("pad-nl-%d", p), strings.Repeat("\n", p), " ", "\n", false); err != nil {
					return err
				}
				if p >= 4 {
					if err := emit(fmt.Sprintf("pad-cm-%d", p), "/*"+strings.Repeat("x", p-4)+"*/", " ", "\n", false); err != nil {
						return err
					}
				}
			}
			// interleaved padding: between every pair of tokens, sizes that put the following tokens across the boundaries
			for _, p := range []int{4096 - len(toks)*2, 4090, 4096, 8190} {
				if p > 0 {
					if err := emit(fmt.Sprintf("mid-%d", p), "", " "+strings.Repeat(" ", p/len(toks))+" ", "\n", false); err != nil {
						return err
					}
				}
			}
		}
		return nil
	})
	if err != nil {
		return err
	}
	if tw != nil {
		if err := tw.Close(); err != nil {
			return err
		}
	}
	return w.Close()
}

func init() {
	commands["layout-sweep"] = cmdLayoutSweep
}
