package main

import (
	"encoding/json"
	"errors"
	"flag"
	"fmt"
	"strings"

	"github.com/moorara/algo/lexer"
	"github.com/moorara/algo/parser/lr"

	ebnfparser "github.com/gardenbed/emerge/internal/ebnf/parser"
)

type Arg struct {
	Val string `json:"val"`
	Off int    `json:"off"` // -1: no position
	Ln  int    `json:"ln"`
	Col int    `json:"col"`
}

type PEvent struct {
	E    string `json:"e"` // tok | prod | eval
	I    int    `json:"i"`
	K    string `json:"k"`
	Lx   string `json:"lx"`
	Off  int    `json:"off"`
	Ln   int    `json:"ln"`
	Col  int    `json:"col"`
	Args []Arg  `json:"args"`
	Res  string `json:"res"`
}

type PTrace struct {
	ID     string   `json:"id"`
	Mode   string   `json:"mode"` // parse | eval
	FailAt int      `json:"failat"`
	Text   string   `json:"text"`
	Toks   []PTok   `json:"toks"`
	Events []PEvent `json:"events"`
	OK     bool     `json:"ok"`
	Wraps  bool     `json:"wraps"`
	Err    string   `json:"err"`
	Decls  []EDecl  `json:"decls"`
	HasRes bool     `json:"hasres"`
}

var errInjected = errors.New("injected failure")

func runParseTrace(id, text string, mode string, failAt int) PTrace {
	tr := PTrace{ID: id, Mode: mode, FailAt: failAt, Text: text, Events: []PEvent{}}
	calls := 0
	fail := func() error {
		calls++
		if failAt >= 0 && calls-1 == failAt {
			return fmt.Errorf("callback %d: %w", failAt, errInjected)
		}
		return nil
	}
	err := safely(func() error {
		p, err := ebnfparser.New("t.ebnf", strings.NewReader(text))
		if err != nil {
			return err
		}
		if mode == "parse" {
			return p.Parse(
				func(t *lexer.Token) error {
					if err := fail(); err != nil {
						return err
					}
					tr.Events = append(tr.Events, PEvent{E: "tok", K: string(t.Terminal), Lx: t.Lexeme, Off: t.Pos.Offset, Ln: t.Pos.Line, Col: t.Pos.Column, Args: []Arg{}})
					return nil
				},
				func(i int) error {
					if err := fail(); err != nil {
						return err
					}
					tr.Events = append(tr.Events, PEvent{E: "prod", I: i, Args: []Arg{}})
					return nil
				})
		}
		n := 0
		res, err := p.ParseAndEvaluate(func(i int, rhs []*lr.Value) (any, error) {
			if err := fail(); err != nil {
				return nil, err
			}
			ev := PEvent{E: "eval", I: i, Args: []Arg{}}
			for _, v := range rhs {
				a := Arg{Off: -1}
				if v == nil {
					a.Val = "<nil value>"
				} else {
					a.Val = fmt.Sprintf("%v", v.Val)
					if v.Pos != nil {
						a.Off, a.Ln, a.Col = v.Pos.Offset, v.Pos.Line, v.Pos.Column
					}
				}
				ev.Args = append(ev.Args, a)
			}
			n++
			ev.Res = fmt.Sprintf("#%d", n)
			tr.Events = append(tr.Events, ev)
			return ev.Res, nil
		})
		if err == nil {
			tr.HasRes = res != nil && fmt.Sprintf("%v", res.Val) == fmt.Sprintf("#%d", n)
		}
		return err
	})
	tr.OK = err == nil
	if err != nil {
		tr.Err = err.Error()
		tr.Wraps = errors.Is(err, errInjected)
	}
	return tr
}

func cmdParseTrace(args []string) error {
	fs := flag.NewFlagSet("parse-trace", flag.ContinueOnError)
	in := fs.String("in", "gen_specs.ndjson", "")
	out := fs.String("out", "ptraces.ndjson", "")
	shard := fs.String("shard", "0/1", "i/n")
	inject := fs.Int("inject", 0, "inject a callback failure at every step for the first N specs of the shard (-1: all)")
	if err := fs.Parse(args); err != nil {
		return err
	}
	var shI, shN int
	if _, err := fmt.Sscanf(*shard, "%d/%d", &shI, &shN); err != nil || shN < 1 {
		return fmt.Errorf("bad -shard")
	}
	w, err := newNDWriter(*out)
	if err != nil {
		return err
	}
	n, mine := 0, 0
	err = readNDJSON(*in, func(line []byte) error {
		n++
		if n%shN != shI {
			return nil
		}
		mine++
		var s ESpec
		if err := json.Unmarshal(line, &s); err != nil {
			return err
		}
		normSpec(&s)
		text, toks := printSpec(s)
		id := fmt.Sprintf("%s-%d", s.Fam, n)
		type variant struct {
			id, text string
			toks     []PTok
			decls    []EDecl
		}
		vs := []variant{{id, text, toks, s.Decls}}
		if mine%2 == 0 {
			// every second specification is written without the optional semicolons: a token declaration or a directive is then
			// followed directly by the next declaration or by the end of the text
			tk := specToks("t", s.Decls, false)
			vs[0] = variant{id + "/nosemi", layout(tk, "", " ", "\n"), tk, s.Decls}
		}
		// ... and every directive gets its turn as the LAST declaration, with and without its semicolon (the text then ends
		// right after a handle)
		for i, d := range s.Decls {
			if d.K == "dir" && i < len(s.Decls)-1 {
				ds := append(append(append([]EDecl{}, s.Decls[:i]...), s.Decls[i+1:]...), d)
				for _, semi := range []bool{false, true} {
					tk := specToks("t", ds, semi)
					vs = append(vs, variant{fmt.Sprintf("%s/dirlast%d-%v", id, i, semi), layout(tk, "", " ", "\n"), tk, ds})
				}
			}
		}
		// token declarations whose value ends in its own delimiter, escaped (the lexeme handed to the callbacks is the text between
		// the delimiters, whatever it ends in)
		{
			ds := append([]EDecl{}, s.Decls...)
			esc := false
			for i := range ds {
				if ds[i].K == "tok" && ds[i].Dk == "str" {
					ds[i].Val, esc = ds[i].Val+`\"`, true
				} else if ds[i].K == "tok" && ds[i].Dk == "pat" {
					ds[i].Val, esc = ds[i].Val+`\/`, true
				}
			}
			if esc && mine%3 == 0 {
				tk := specToks("t", ds, true)
				vs = append(vs, variant{id + "/esc", layout(tk, "", " ", "\n"), tk, ds})
			}
		}
		if mine%150 == 1 {
			// the text starts behind so many blanks that a token begins just before, at and after offset 4095 (the end of the
			// first half of a reader of the default size), or - for a text of more than 8 KiB - around the middle of the text
			plain := specToks("t", s.Decls, true)
			layout(plain, "", " ", "\n")
			step := max(1, len(plain)/8)
			for j := 0; j < len(plain); j += step {
				for _, at := range []int{4094, 4095, 4096} {
					if plain[j].Off > at {
						continue
					}
					tk := specToks("t", s.Decls, true)
					txt := layout(tk, strings.Repeat(" ", at-plain[j].Off-1)+"\n", " ", "\n")
					vs = append(vs, variant{fmt.Sprintf("%s/pad%d@%d", id, at, j), txt, tk, s.Decls})
				}
				for _, d := range []int{-1, 0, 1} {
					// lead 5000, trailing blanks so that (len+3)/2 - 1 + d is the offset of token j
					tk := specToks("t", s.Decls, true)
					txt := layout(tk, strings.Repeat(" ", 4999)+"\n", " ", "\n")
					trail := 2*(5000+plain[j].Off-d+1) - 3 - len(txt)
					if trail < 0 {
						continue
					}
					vs = append(vs, variant{fmt.Sprintf("%s/mid%d@%d", id, d, j), txt + strings.Repeat(" ", trail), tk, s.Decls})
				}
			}
		}
		for _, v := range vs {
			for _, mode := range []string{"parse", "eval"} {
				base := runParseTrace(v.id, v.text, mode, -1)
				base.Toks, base.Decls = v.toks, v.decls
				if err := w.Write(base); err != nil {
					return err
				}
				if *inject < 0 || mine <= *inject {
					for k := 0; k < len(base.Events); k++ {
						tr := runParseTrace(fmt.Sprintf("%s/%s@%d", v.id, mode, k), v.text, mode, k)
						tr.Toks, tr.Decls = v.toks, v.decls
						if err := w.Write(tr); err != nil {
							return err
						}
					}
				}
			}
		}
		return nil
	})
	if err != nil {
		return err
	}
	return w.Close()
}

func init() {
	commands["parse-trace"] = cmdParseTrace
}
