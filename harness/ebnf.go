package main

import (
	"encoding/json"
	"flag"
	"fmt"
	"regexp"
	"strconv"
	"strings"

	"github.com/gardenbed/emerge/internal/ebnf/parser/spec"
)

// ---- abstract specifications (spec/Ebnf.tla) ----

type RNode struct {
	K string  `json:"k"`
	N string  `json:"n"`
	S bool    `json:"s"`
	C []RNode `json:"c"`
}

type Handle struct {
	K    string  `json:"k"` // t | r
	N    string  `json:"n"`
	S    bool    `json:"s"`
	Name string  `json:"name"`
	Rhs  []RNode `json:"rhs"`
}

type EDecl struct {
	K     string   `json:"k"` // tok | rule | dir
	Name  string   `json:"name"`
	Dk    string   `json:"dk"`
	Val   string   `json:"val"`
	Rhs   []RNode  `json:"rhs"`
	Assoc string   `json:"assoc"`
	Hs    []Handle `json:"hs"`
}

type ESpec struct {
	Fam   string  `json:"fam"`
	Decls []EDecl `json:"decls"`
}

func normNode(n *RNode) {
	if n.C == nil {
		n.C = []RNode{}
	}
	for i := range n.C {
		normNode(&n.C[i])
	}
}

func normSpec(s *ESpec) {
	if s.Decls == nil {
		s.Decls = []EDecl{}
	}
	for i := range s.Decls {
		d := &s.Decls[i]
		if d.Rhs == nil {
			d.Rhs = []RNode{}
		}
		for j := range d.Rhs {
			normNode(&d.Rhs[j])
		}
		if d.Hs == nil {
			d.Hs = []Handle{}
		}
		for j := range d.Hs {
			if d.Hs[j].Rhs == nil {
				d.Hs[j].Rhs = []RNode{}
			}
			for k := range d.Hs[j].Rhs {
				normNode(&d.Hs[j].Rhs[k])
			}
		}
	}
}

// ---- printer: abstract spec -> token list -> text ----

type PTok struct {
	K   string `json:"k"`  // emerge terminal name
	Src string `json:"-"`  // source text
	Lx  string `json:"lx"` // lexeme the scanner must report
	Off int    `json:"off"`
	Ln  int    `json:"ln"`
	Col int    `json:"col"`
	End bool   `json:"-"` // last token of a declaration
	Opt bool   `json:"-"` // an optional semicolon
}

func punct(s string) PTok { return PTok{K: s, Src: s, Lx: s} }

func termTok(n string, isStr bool) PTok {
	if isStr {
		return PTok{K: "STRING", Src: `"` + n + `"`, Lx: n}
	}
	return PTok{K: "TOKEN", Src: n, Lx: n}
}

func rhsToks(t RNode, out *[]PTok) {
	switch t.K {
	case "t":
		*out = append(*out, termTok(t.N, t.S))
	case "nt":
		*out = append(*out, PTok{K: "IDENT", Src: t.N, Lx: t.N})
	case "cat":
		rhsToks(t.C[0], out)
		rhsToks(t.C[1], out)
	case "alt":
		rhsToks(t.C[0], out)
		*out = append(*out, punct("|"))
		rhsToks(t.C[1], out)
	case "talt":
		rhsToks(t.C[0], out)
		*out = append(*out, punct("|"))
	case "grp", "opt", "star", "plus":
		o, c := map[string]string{"grp": "(", "opt": "[", "star": "{", "plus": "{{"}[t.K], map[string]string{"grp": ")", "opt": "]", "star": "}", "plus": "}}"}[t.K]
		*out = append(*out, punct(o))
		rhsToks(t.C[0], out)
		*out = append(*out, punct(c))
	}
}

func ruleToks(name string, rhs []RNode, out *[]PTok) {
	*out = append(*out, PTok{K: "IDENT", Src: name, Lx: name}, punct("="))
	if len(rhs) > 0 {
		rhsToks(rhs[0], out)
	}
}

// specToks returns the significant tokens of the printed specification; optSemi controls the optional semicolons.
func specToks(name string, decls []EDecl, optSemi bool) []PTok {
	out := []PTok{{K: "grammar", Src: "grammar", Lx: "grammar"}, {K: "IDENT", Src: name, Lx: name}}
	semi := func(optional bool) {
		if optional && !optSemi {
			out[len(out)-1].End = true
			return
		}
		t := punct(";")
		t.End = true
		t.Opt = optional
		out = append(out, t)
	}
	semi(true)
	for di, d := range decls {
		switch d.K {
		case "tok":
			out = append(out, PTok{K: "TOKEN", Src: d.Name, Lx: d.Name}, punct("="))
			switch d.Dk {
			case "str":
				out = append(out, PTok{K: "STRING", Src: `"` + d.Val + `"`, Lx: d.Val})
			case "pat":
				out = append(out, PTok{K: "REGEX", Src: "/" + d.Val + "/", Lx: d.Val})
			case "pre":
				out = append(out, PTok{K: "PREDEF", Src: d.Val, Lx: d.Val})
			}
			semi(true)
		case "rule":
			ruleToks(d.Name, d.Rhs, &out)
			semi(false)
		case "dir":
			out = append(out, punct("@"+d.Assoc))
			for _, h := range d.Hs {
				if h.K == "t" {
					out = append(out, termTok(h.N, h.S))
				} else {
					out = append(out, punct("<"))
					ruleToks(h.Name, h.Rhs, &out)
					out = append(out, punct(">"))
				}
			}
			if !optSemi && di+1 < len(decls) && decls[di+1].K == "tok" {
				// handles are consumed greedily: without its semicolon the directive would take the name of the token declaration
				// that follows as one more handle - there the semicolon is not optional
				t := punct(";")
				t.End = true
				out = append(out, t)
			} else {
				semi(true)
			}
		}
	}
	return out
}

// layout writes the tokens with the given separators and fills in their positions.
// sep: text between two tokens of a declaration; eol: text after a declaration.
func layout(toks []PTok, lead, sep, eol string) string {
	var b strings.Builder
	off, ln, col := 0, 1, 1
	emit := func(s string) {
		for _, r := range s {
			b.WriteRune(r)
			off++
			if r == '\n' {
				ln++
				col = 1
			} else {
				col++
			}
		}
	}
	emit(lead)
	for i := range toks {
		toks[i].Off, toks[i].Ln, toks[i].Col = off, ln, col
		emit(toks[i].Src)
		if toks[i].End {
			emit(eol)
		} else {
			emit(sep)
		}
	}
	return b.String()
}

func printSpec(s ESpec) (string, []PTok) {
	toks := specToks("t", s.Decls, true)
	return layout(toks, "", " ", "\n"), toks
}

// ---- ebnf-export: print every generated spec, run the real spec.Parse, export the derived grammar ----

type EbnfArt struct {
	SpecDump
	Fam    string     `json:"fam"`
	Text   string     `json:"text"`
	Decls  []EDecl    `json:"decls"`
	Toks   []PTok     `json:"toks"`
	DfaErr string     `json:"dfaerr"` // error of (*Spec).DFA() for an accepted specification (patterns are validated there)
	Diags  [][]string `json:"diags"`  // diagnostics of known shapes found in err/dfaerr: [kind, name]
}

var diagShapes = []struct {
	kind string
	re   *regexp.Regexp
}{
	{"undef-token", regexp.MustCompile(`no definition for terminal "?([^"\s]+)"?`)},
	{"multi-def", regexp.MustCompile(`multiple definitions for terminal "?([^"\s:]+)"?`)},
	{"same-value", regexp.MustCompile(`multiple definitions with the same value: "((?:[^"\\]|\\.)*)"`)},
	{"bad-predef", regexp.MustCompile(`invalid predefined regex: (\$[A-Za-z0-9_]+)`)},
	{"no-start", regexp.MustCompile(`(missing production rule with the start symbol|no production rule for start symbol|start symbol start not in the set)`)},
	{"no-production", regexp.MustCompile(`no production rule for non-terminal symbol ([a-z][0-9a-z_]*)`)},
	{"dup-handle", regexp.MustCompile(`(.+) appeared in more than one precedence level`)},
	{"bad-pattern", regexp.MustCompile(`(?m)^\W*"?([A-Z][0-9A-Z_]*)"?: (?:invalid|panic)`)},
}

func diagsOf(texts ...string) [][]string {
	out := [][]string{}
	seen := map[string]bool{}
	for _, t := range texts {
		for _, sh := range diagShapes {
			for _, m := range sh.re.FindAllStringSubmatch(t, -1) {
				name := m[1]
				if sh.kind == "no-start" {
					name = "start"
				}
				if sh.kind == "same-value" {
					if u, err := strconv.Unquote(`"` + name + `"`); err == nil {
						name = u
					}
				}
				k := sh.kind + "\x00" + name
				if !seen[k] {
					seen[k] = true
					out = append(out, []string{sh.kind, strings.TrimSpace(name)})
				}
			}
		}
	}
	return out
}

// dfaError builds the scanner automaton of an accepted specification and returns its error text.
func dfaError(text string) string {
	msg := ""
	err := safely(func() error {
		s, err := spec.Parse("t.ebnf", strings.NewReader(text))
		if err != nil {
			return nil
		}
		_, _, err = s.DFA()
		return err
	})
	if err != nil {
		msg = err.Error()
		if msg == "" {
			msg = "error"
		}
	}
	return msg
}

func cmdEbnfExport(args []string) error {
	fs := flag.NewFlagSet("ebnf-export", flag.ContinueOnError)
	in := fs.String("in", "gen_specs.ndjson", "")
	out := fs.String("out", "specs.ndjson", "")
	shard := fs.String("shard", "0/1", "i/n")
	if err := fs.Parse(args); err != nil {
		return err
	}
	var shI, shN int
	if _, err := fmt.Sscanf(*shard, "%d/%d", &shI, &shN); err != nil || shN < 1 {
		return fmt.Errorf("bad -shard")
	}
	w, err := newNDWriter(*out)
	if err != nil {
		return err
	}
	n := 0
	err = readNDJSON(*in, func(line []byte) error {
		n++
		if n%shN != shI {
			return nil
		}
		var s ESpec
		if err := json.Unmarshal(line, &s); err != nil {
			return err
		}
		normSpec(&s)
		text, toks := printSpec(s)
		id := fmt.Sprintf("%s-%d", s.Fam, n)
		art := EbnfArt{SpecDump: dumpSpec(id, "t.ebnf", text), Fam: s.Fam, Text: text, Decls: s.Decls, Toks: toks}
		if art.OK {
			art.DfaErr = dfaError(text)
		}
		art.Diags = diagsOf(art.Err, art.DfaErr)
		return w.Write(art)
	})
	if err != nil {
		return err
	}
	return w.Close()
}

func init() {
	commands["ebnf-export"] = cmdEbnfExport
}

// ebnf-print: abstract specifications -> {id, fam, text}
func cmdEbnfPrint(args []string) error {
	fs := flag.NewFlagSet("ebnf-print", flag.ContinueOnError)
	in := fs.String("in", "gen_specs.ndjson", "")
	out := fs.String("out", "texts.ndjson", "")
	if err := fs.Parse(args); err != nil {
		return err
	}
	w, err := newNDWriter(*out)
	if err != nil {
		return err
	}
	n := 0
	err = readNDJSON(*in, func(line []byte) error {
		n++
		var s ESpec
		if err := json.Unmarshal(line, &s); err != nil {
			return err
		}
		normSpec(&s)
		text, _ := printSpec(s)
		return w.Write(map[string]any{"id": fmt.Sprintf("%s-%d", s.Fam, n), "fam": s.Fam, "text": text})
	})
	if err != nil {
		return err
	}
	return w.Close()
}

func init() {
	commands["ebnf-print"] = cmdEbnfPrint
}
