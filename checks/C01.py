"""C01 - the EBNF-to-grammar translation preserves the language of every rule."""
import hashlib
import json
import os

import vp

LEVEL = "model_checking"


def diff_sig(diffs):
    norm = sorted((d["rule"], sorted(map(tuple, d["lost"])), sorted(map(tuple, d["added"]))) for d in diffs)
    return hashlib.sha1(json.dumps(norm).encode()).hexdigest()[:16]


def generate(ck, consts):
    g = ck.tlc("EbnfGen", constants=consts, workers=4, count=False, timeout=900)
    if "GENERATED" not in g.out:
        raise vp.Infra("EbnfGen failed:\n" + g.out[-2000:])
    # family F6 (declaration kinds, specifications without a start rule) belongs to C11; family F11 (very long and very
    # deep constructs) is for the parser-level checks C04/C18: bounded language fixpoints over 16 nested repetitions explode
    path = os.path.join(ck.work, "tla", "gen_specs.ndjson")
    vp.write_ndjson(path, [r for r in vp.read_ndjson(path) if r["fam"] not in ("F6", "F11")])


def export(ck):
    ck.run_sharded("ebnf-export", "tla/gen_specs.ndjson", "tla/specs.ndjson", timeout=900)
    return {a["id"]: a for a in vp.read_ndjson(os.path.join(ck.work, "tla", "specs.ndjson"))}


def decide(ck, arts, k):
    r = ck.tlc("GrammarEq", constants={"K": k}, timeout=3000)
    if not r.ok:
        raise vp.Infra("GrammarEq did not complete:\n" + r.out[-3000:])
    ck.coverage["traces_validated_against_impl"] += sum(1 for a in arts.values() if a["ok"])
    drift = r.printed("DRIFT")
    ck.coverage["model_drift"] = len(drift)       # the symbol-table model no longer predicts the production set: informational
    if drift:
        ck.notes.append("SymTab.tla does not reproduce the production set of %d specification(s), e.g. %s" % (len(drift), drift[0]["id"]))
    out = []
    for d in r.printed("LANGDIFF"):
        a = arts[d["id"]]
        sig = diff_sig(d["diffs"])
        first = d["diffs"][0]
        what = "spec %r: rule %s loses %s and gains %s" % (a["text"].replace("\n", " "), first["rule"],
                                                       [" ".join(x) for x in first["lost"][:3]], [" ".join(x) for x in first["added"][:3]])
        out.append((a, sig))
        # NAME-CAPTURE is matched by shape: the implementation-shaped model of the symbol table (SymTab.tla) reproduces the
        # real production set exactly AND exhibits a collision between a synthesised name and a user/other synthesised name
        if d.get("explained") and ck.known("NAME-CAPTURE", what):
            continue
        ck.violation(what, {"property": "C01", "kind": "language", "text": a["text"], "diff": sig, "decls": a["decls"]})
    return r, out


def run(ck):
    quick = ck.tier == "quick"
    k = 4 if quick else 5
    if ck.args.replay:
        rp = json.load(open(ck.args.replay))
        ck.stage_specs()
        vp.write_ndjson(os.path.join(ck.work, "tla", "gen_specs.ndjson"), [{"fam": "R", "decls": rp["decls"]}])
        arts = export(ck)
        decide(ck, arts, k)
        ck.sample({"text": rp["text"], "violations": len(ck.violations)})
        return ck.finish()
    consts = {"K": k, "MaxSize": 4 if quick else 5, "ShareSize": 2 if quick else 3}
    generate(ck, consts)
    arts = export(ck)
    rejected = [a for a in arts.values() if not a["ok"]]
    ck.log("%d specifications exported, %d rejected by spec.Parse" % (len(arts), len(rejected)))
    if ck.args.selftest:
        # drop one production of one recorded grammar: the fixpoints must differ
        victim = next(a for a in arts.values() if a["ok"] and len(a["prods"]) > 3)
        victim["prods"] = victim["prods"][1:]
        vp.write_ndjson(os.path.join(ck.work, "tla", "specs.ndjson"), list(arts.values()))
        r = ck.tlc("GrammarEq", constants={"K": k})
        hit = [d for d in r.printed("LANGDIFF") if d["id"] == victim["id"]]
        print("SELFTEST %s: production dropped from %s -> %d report(s)" % ("OK" if hit else "FAILED", victim["id"], len(hit)))
        return 0 if hit else 2
    r, diffs = decide(ck, arts, k)
    if os.environ.get("VERIF_PRINT_KNOWN"):
        print(json.dumps([{"text": a["text"], "diff": s} for a, s in diffs], indent=1))
    for a in rejected[:5]:
        # generated specifications are well-formed: a rejection is C07's business but is reported here as infrastructure
        ck.notes.append("rejected: %r: %s" % (a["text"], a["err"][:100]))
    if rejected:
        raise vp.Infra("%d generated well-formed specifications were rejected, e.g. %r: %s" % (len(rejected), rejected[0]["text"], rejected[0]["err"][:200]))
    fams = {}
    for a in arts.values():
        fams[a["fam"]] = fams.get(a["fam"], 0) + 1
    for a in list(arts.values())[:: max(1, len(arts) // 10)]:
        ck.sample({"id": a["id"], "text": a["text"], "productions": len(a["prods"])})
    ck.assumptions += ["languages compared on all terminal strings of length <= %d over the terminals of each spec (<= 4 terminals)" % k,
                       "the printer writes only trees that need no extra parentheses (Ebnf!Printable)"]
    return ck.finish({"exhaustive": True, "specs": len(arts), "families": fams, "K": k, "max_tree_size": consts["MaxSize"],
                      "share_size": consts["ShareSize"], "language_differences": len(diffs)})
