"""C04 - the built-in EBNF parser accepts exactly the documented, disambiguated grammar; its tables are the LALR(1) tables."""
import json
import os
import subprocess
import shutil

import vp
import lrcommon as lc

LEVEL = "model_checking"


def table_iso(ck, impl):
    r = ck.tlc("TableIso", workers=4, timeout=900)
    if not r.ok:
        raise vp.Infra("TableIso did not complete:\n" + r.out[-3000:])
    pairs = r.printed("PAIR")
    for d in r.printed("CELLS"):
        ck.violation("embedded table, state %d (documented item set %d): cells differ from the LALR(1) table of the documented grammar: ACTION %s GOTO %s" %
                     (d["i"], d["q"], d["act"], d["goto"]),
                     {"property": "C04", "kind": "table-cell", "state": d["i"], "act": sorted(d["act"]), "goto": sorted(d["goto"])})
    i2q, q2i = {}, {}
    for p in pairs:
        i2q.setdefault(p["i"], set()).add(p["q"])
        q2i.setdefault(p["q"], set()).add(p["i"])
    for i, qs in i2q.items():
        if len(qs) > 1:
            ck.violation("embedded state %d stands for %d different item sets of the documented automaton" % (i, len(qs)),
                         {"property": "C04", "kind": "table-pairing", "state": i})
    for q, is_ in q2i.items():
        if len(is_) > 1:
            ck.violation("item set %d of the documented automaton is split into embedded states %s" % (q, sorted(is_)),
                         {"property": "C04", "kind": "table-pairing", "docstate": q})
    # no extra rows: every probed state that has any entry must have been paired
    for s, (arow, grow) in enumerate(zip(impl["act"], impl["goto"])):
        if (arow or grow) and s not in i2q:
            ck.violation("embedded state %d has %d entries but is not a state of the documented LALR(1) automaton" % (s, len(arow) + len(grow)),
                         {"property": "C04", "kind": "table-extra-row", "state": s})
    for k, v in impl["labels"].items():
        ck.violation("parsing_table.go: %s %s" % (k, v), {"property": "C04", "kind": "table-label", "what": k})
    ck.coverage["traces_validated_against_impl"] += 1
    return r, len(i2q)


def lr_x_rd(ck, maxlen):
    r = ck.tlc("LRxRD", constants={"MaxLen": maxlen}, timeout=3000)
    if not r.ok:
        raise vp.Infra("LRxRD did not complete:\n" + r.out[-3000:])
    for d in r.printed("DISAGREE")[:20]:
        t = sorted(d["toks"])[0]
        kinds = d["w"] + ([] if t == "$end" else [t])
        ck.violation("after tokens %s the embedded tables say %r for next token %s, the documented grammar says %r" %
                     (" ".join(d["w"]), d["lr"][t], t, d["rd"][t]),
                     {"property": "C04", "kind": "language", "tokens": kinds, "text": lc.text_of_tokens(kinds)})
    return r


def regenerate(ck):
    """Runs emerge's own table generator from the working tree and compares with the checked-in file byte for byte."""
    gen = os.path.join(ck.work, "regen")
    os.makedirs(gen, exist_ok=True)
    env = dict(os.environ, GOFLAGS="-mod=mod", GOPROXY="off")
    p = subprocess.run(["go", "build", "-o", os.path.join(gen, "gen"), "./internal/ebnf/parser/generate"], cwd=vp.REPO, env=env,
                       stdout=subprocess.PIPE, stderr=subprocess.STDOUT, text=True)
    if p.returncode != 0:
        raise vp.Infra("table generator does not build:\n" + p.stdout[-2000:])
    p = subprocess.run([os.path.join(gen, "gen")], cwd=gen, stdout=subprocess.PIPE, stderr=subprocess.STDOUT, text=True, timeout=300)
    out = os.path.join(gen, "parsing_table.go")
    if p.returncode != 0 or not os.path.exists(out):
        ck.violation("regenerating the parsing table fails: %s" % p.stdout[-300:], {"property": "C04", "kind": "regenerate-fails"})
        return False
    a = open(out, "rb").read()
    b = open(os.path.join(vp.REPO, "internal/ebnf/parser/parsing_table.go"), "rb").read()
    if a != b:
        n = next((i for i in range(min(len(a), len(b))) if a[i] != b[i]), min(len(a), len(b)))
        ck.violation("regenerated parsing_table.go differs from the checked-in file at byte %d (sizes %d / %d)" % (n, len(a), len(b)),
                     {"property": "C04", "kind": "regenerate-differs"})
        return False
    return True


def trees(ck, quick):
    n = lc.gen_specs(ck, {"K": 3, "MaxSize": 4 if quick else 5, "ShareSize": 1 if quick else 2}, drop=())
    ck.run_sharded("parse-trace", "tla/gen_specs.ndjson", "tla/ptraces.ndjson", extra=["-inject", "0"], timeout=1200)
    traces = [t for t in vp.read_ndjson(os.path.join(ck.work, "tla", "ptraces.ndjson")) if t["mode"] == "parse"]
    vp.write_ndjson(os.path.join(ck.work, "tla", "ptraces.ndjson"), traces)
    r = ck.tlc("ParseTrace", constants={"K": 3}, timeout=3000, extra=[])
    if not r.ok:
        raise vp.Infra("ParseTrace did not complete:\n" + r.out[-3000:])
    by = {t["id"]: t for t in traces}
    for d in r.printed("TRACEBAD"):
        t = by[d["id"]]
        ck.violation("spec %r: the real parser's step %d is not the step of the documented LALR(1) parse / the tree built from its "
                     "reductions is not the tree that was written (expected action %s)" % (vp.short_blanks(t["text"]), d["at"], d["expect"]),
                     {"property": "C04", "kind": "parse", "text": t["text"], "decls": t["decls"]})
    ck.coverage["traces_validated_against_impl"] += len(traces)
    return r, len(traces)


def run(ck):
    quick = ck.tier == "quick"
    ck.stage_specs()
    lc.doc_table(ck)
    impl, tab = lc.impl_table(ck)
    if ck.args.selftest:
        # drop one ACTION entry from the recorded table: both the table comparison and the language product must notice
        row = next(r for r in impl["act"] if len(r) > 3)
        key = sorted(row)[1]
        del row[key]
        json.dump(impl, open(os.path.join(ck.work, "tla", "impltable.json"), "w"))
        r1 = ck.tlc("TableIso", workers=4)
        r2 = ck.tlc("LRxRD", constants={"MaxLen": 10})
        h1, h2 = len(r1.printed("CELLS")), len(r2.printed("DISAGREE"))
        print("SELFTEST %s: one ACTION entry dropped -> %d cell report(s), %d language disagreement(s)" % ("OK" if h1 and h2 else "FAILED", h1, h2))
        return 0 if h1 and h2 else 2
    if ck.args.replay:
        rp = json.load(open(ck.args.replay))
        if rp.get("kind") == "parse":
            vp.write_ndjson(os.path.join(ck.work, "tla", "gen_specs.ndjson"), [{"fam": "R", "decls": rp["decls"]}])
            ck.run_harness(["parse-trace", "-in", "tla/gen_specs.ndjson", "-out", "tla/ptraces.ndjson"])
            traces = [t for t in vp.read_ndjson(os.path.join(ck.work, "tla", "ptraces.ndjson")) if t["mode"] == "parse"]
            vp.write_ndjson(os.path.join(ck.work, "tla", "ptraces.ndjson"), traces)
            r = ck.tlc("ParseTrace", constants={"K": 3})
            for d in r.printed("TRACEBAD"):
                ck.violation("replayed: step %d" % d["at"], rp)
        elif rp.get("kind", "").startswith("regenerate"):
            regenerate(ck)
        else:
            table_iso(ck, impl)
            lr_x_rd(ck, 10)
        ck.sample({"replayed": rp.get("kind")})
        return ck.finish()
    r1, npairs = table_iso(ck, impl)
    ck.log("tables: %s; %d state pairs explored, all cells compared" % (tab, npairs))
    r2 = lr_x_rd(ck, 12 if quick else 14)
    ck.log("LR(embedded tables) x recursive descent(documentation): %d product states to length %d" % (r2.distinct, 12 if quick else 14))
    regen = regenerate(ck)
    r3, ntr = trees(ck, quick)
    ck.log("tree agreement on %d generated specifications (%d states)" % (ntr, r3.distinct))
    ck.sample({"table": tab, "pairs": npairs})
    ck.sample({"language_product_states": r2.distinct, "max_tokens": 12 if quick else 14})
    ck.sample({"regenerated_byte_identical": regen})
    ck.assumptions += ["the plain-production form of the documented EBNF grammar and its precedence list are transcribed in spec/EbnfDocGrammar.tla",
                       "token sequences over the 22 token kinds; lexemes are irrelevant to the parser",
                       "the byte-for-byte regeneration clause is a plain comparison (observation), reported separately"]
    return ck.finish({"exhaustive": True, "table_entries": impl["nentries"], "probed_states": impl["maxstate"], "state_pairs": npairs,
                      "max_token_sequence_length": 12 if quick else 14, "parse_traces": ntr, "regenerated_identical": regen})
