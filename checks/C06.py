"""C06 - the LALR(1) table for a user grammar parses exactly its language, as the directives prescribe."""
import itertools
import json
import os
import random

import vp

LEVEL = "model_checking"

G = "grammar t;\n"
TEXTBOOK = {
    # SLR(1)
    "slr-expr": G + 'start = e;\ne = e "+" t | t;\nt = t "*" f | f;\nf = "(" e ")" | "x";\n',
    "slr-anbn": G + 'start = "a" start "b" | ;\n',
    "slr-star": G + 'start = {"a"} "b";\n',
    "slr-plus": G + 'start = {{"a"}} ["b"];\n',
    "slr-opt": G + 'start = ["a"] ["b"] "x";\n',
    "slr-list": G + 'start = "(" l ")";\nl = l "," "x" | "x";\n',
    "slr-group": G + 'start = ("a" | "b") ("x" | );\n',
    # LALR(1) but not SLR(1) (Dragon book 4.49)
    "lalr-assign": G + 'start = l "=" r | r;\nl = "*" r | "x";\nr = l;\n',
    "lalr-2": G + 'start = "a" aa "d" | "b" bb "d" | "a" bb "e";\naa = "c";\nbb = "c";\n',
    # LR(1) but not LALR(1): reduce/reduce conflict after merging
    "lr1-not-lalr": G + 'start = "a" aa "d" | "b" bb "d" | "a" bb "e" | "b" aa "e";\naa = "c";\nbb = "c";\n',
    # ambiguous, without and with directives
    "amb-plus": G + 'start = e;\ne = e "+" e | "x";\n',
    "amb-plus-left": G + 'start = e;\ne = e "+" e | "x";\n@left "+";\n',
    "amb-plus-right": G + 'start = e;\ne = e "+" e | "x";\n@right "+";\n',
    "amb-plus-none": G + 'start = e;\ne = e "+" e | "x";\n@none "+";\n',
    "amb-two": G + 'start = e;\ne = e "+" e | e "*" e | "x";\n@left "*";\n@left "+";\n',
    "amb-two-partial": G + 'start = e;\ne = e "+" e | e "*" e | "x";\n@left "*";\n',
    "dangling-else": G + 'start = s;\ns = "i" s | "i" s "e" s | "x";\n',
    "dangling-else-right": G + 'start = s;\ns = "i" s | "i" s "e" s | "x";\n@right "i" "e";\n',
    "dangling-else-levels": G + 'start = s;\ns = "i" s | "i" s "e" s | "x";\n@none "e";\n@none "i";\n',
    "rr-ambiguous": G + 'start = aa | bb;\naa = "x";\nbb = "x";\n',
    "rr-ambiguous-dir": G + 'start = aa | bb;\naa = "x";\nbb = "x";\n@left <aa = "x">;\n@left <bb = "x">;\n',
    "juxtapose": G + 'start = e;\ne = e e | "x";\n',
    "juxtapose-left": G + 'start = e;\ne = e e | "x";\n@left <e = e e>;\n@left "x";\n',
    "juxtapose-left-first": G + '@left <e = e e>;\n@left "x";\nstart = e;\ne = e e | "x";\n',
    "juxtapose-right": G + 'start = e;\ne = e e | "x";\n@right <e = e e>;\n@right "x";\n',
    "handle-between": G + 'e = e e | e "+" e | "x";\n@left <e = e e>;\nstart = e;\n@left "+";\n@left "x";\n',
    "two-handles": G + 'start = e;\ne = e e | e f | "x";\nf = "y";\n@left <e = e e> <e = e f>;\n@left "x" "y";\n',
    "unary": G + 'start = e;\ne = "-" e | e "-" e | "x";\n@left "-";\n',
    # a rule handle of several alternatives BEHIND other handles of its directive (round 10: every alternative keeps its level)
    "handle-alts-behind": G + '@left "*";\n@left "+" "-" <e = e a e | e b e>;\nstart = e;\ne = e "*" e | e a e | e b e | "x";\na = "+";\nb = "-";\n',
    "handle-alts-behind-3": G + 'start = e;\ne = e "*" e | e a e | e b e | e c e | "x";\na = "+";\nb = "-";\nc = "%";\n@left "*";\n@left <e = e c e> "+" "-" "%" <e = e b e | e a e>;\n',
    "empty-amb": G + 'start = aa aa;\naa = "a" | ;\n',
    "eps-cycle": G + 'start = start start | "a" | ;\n',
}
OPS = ["+", "*", "^"]


def ordered_partitions(items):
    if not items:
        yield []
        return
    for r in range(1, len(items) + 1):
        for first in itertools.combinations(items, r):
            rest = [x for x in items if x not in first]
            for p in ordered_partitions(rest):
                yield [list(first)] + p


def operator_grammars(nops):
    ops = OPS[:nops]
    rule = "e = " + " | ".join('e "%s" e' % o for o in ops) + ' | "(" e ")" | "x";\n'
    out = {}
    for part in ordered_partitions(ops):
        for assoc in itertools.product(["left", "right"], repeat=len(part)):
            dirs = "".join("@%s %s;\n" % (a, " ".join('"%s"' % o for o in lv)) for a, lv in zip(assoc, part))
            name = "op-" + "/".join("%s:%s" % (a[0], "".join(lv)) for a, lv in zip(assoc, part))
            out[name] = G + "start = e;\n" + rule + dirs
    return out


def generated(ck, n, n_ebnf):
    g = ck.tlc("GramGen", constants={"K": 3, "MaxSeq": 2}, workers=4, count=False, timeout=600)
    if "GENERATED" not in g.out:
        raise vp.Infra("GramGen failed:\n" + g.out[-2000:])
    bodies = [b["rhs"] for b in vp.read_ndjson(os.path.join(ck.work, "tla", "gen_bodies.ndjson"))]
    rnd = random.Random(ck.seed)
    pairs = [(a, b) for a in range(len(bodies)) for b in range(len(bodies))]
    if n < len(pairs):
        pairs = rnd.sample(pairs, n)

    def rule(name, rhs):
        return {"k": "rule", "name": name, "dk": "", "val": "", "rhs": rhs, "assoc": "", "hs": []}
    specs = [{"fam": "gen", "decls": [rule("start", bodies[a]), rule("x", bodies[b])]} for a, b in pairs]
    # End-to-end family: specifications that use the EBNF operators ( ) [ ] { } {{ }}, several of them over the same
    # alternatives (C01's generator).  For these the reference language is the documented meaning of the operators
    # (Ebnf!Denot), so "the table accepts exactly the sentences of that grammar" is decided from the text of the
    # specification to the returned table, not only from the derived productions on.
    e = ck.tlc("EbnfGen", constants={"K": 4, "MaxSize": 3, "ShareSize": 2}, workers=4, count=False, timeout=900)
    if "GENERATED" not in e.out:
        raise vp.Infra("EbnfGen failed:\n" + e.out[-2000:])
    eb = [r for r in vp.read_ndjson(os.path.join(ck.work, "tla", "gen_specs.ndjson")) if r["fam"] in ("F1", "F2")]
    f2 = [r for r in eb if r["fam"] == "F2"]
    f1 = [r for r in eb if r["fam"] == "F1"]
    f1 = rnd.sample(f1, min(len(f1), n_ebnf))
    specs += [{"fam": "ebnf", "decls": r["decls"]} for r in f2 + f1]
    vp.write_ndjson(os.path.join(ck.work, "tla", "gen_specs.ndjson"), specs)
    ck.run_harness(["ebnf-print", "-in", "tla/gen_specs.ndjson", "-out", "tla/gen_texts.ndjson"])
    texts = vp.read_ndjson(os.path.join(ck.work, "tla", "gen_texts.ndjson"))
    if len(texts) != len(specs):
        raise vp.Infra("ebnf-print returned %d texts for %d specifications" % (len(texts), len(specs)))
    for t, sp in zip(texts, specs):
        t["fam"], t["decls"] = sp["fam"], sp["decls"]
    return texts, len(bodies)


def declared_levels(text):
    """The precedence levels as the TEXT of a specification declares them (one level per directive, in order; handles in
    order): the reference for the table is what was written, not what spec.Parse recorded.  Returns None when a directive
    uses anything but strings, TOKEN names and <rule = symbols> handles without operators."""
    import re
    levels = []
    for m in re.finditer(r'@(left|right|none)\s+([^;]*);', text):
        lv = {"assoc": m.group(1), "terms": [], "prods": []}
        for h in re.findall(r'"(?:[^"\\]|\\.)*"|<[^>]*>|[A-Za-z_][A-Za-z0-9_]*', m.group(2)):
            if h.startswith('"'):
                lv["terms"].append("t:" + h[1:-1])
            elif h.startswith("<"):
                mm = re.fullmatch(r'<\s*([a-z][a-z0-9_]*)\s*=\s*(.*?)\s*>', h)
                if not mm or re.search(r'[\[\]{}()|]', mm.group(2)):
                    return None
                body = []
                for y in re.findall(r'"(?:[^"\\]|\\.)*"|[A-Za-z_][A-Za-z0-9_]*', mm.group(2)):
                    body.append("t:" + y[1:-1] if y.startswith('"') else ("t:" + y if y[0].isupper() else "n:" + y))
                lv["prods"].append({"h": "n:" + mm.group(1), "b": body})
            elif h[0].isupper():
                lv["terms"].append("t:" + h)
            else:
                return None
        levels.append(lv)
    return levels


def norm_levels(levels):
    return [(lv["assoc"], sorted(lv["terms"]), sorted((p["h"], tuple(p["b"])) for p in lv["prods"])) for lv in levels]


TAGS = {"SILENTLYRESOLVED": "a conflict remains after the documented resolution but emerge returned a table",
        "FALSEREJECT": "the grammar is LALR(1) under its directives but emerge rejected it",
        "NOCONFLICTREPORT": "rejected without a conflict report",
        "TABLEDIFF": "the returned table is not the LALR(1) table of the grammar",
        "LANGUAGE": "the returned table does not accept exactly the sentences of the grammar",
        "PRECEDENCE": "x o1 x o2 x is not grouped as the precedence table dictates",
        "ENDTOEND": "the returned table does not accept exactly the sentences the specification denotes (documented meaning of ( ) [ ] { } {{ }})"}


def decide(ck, arts, k):
    r = ck.tlc("UserLalr", constants={"K": k}, timeout=3300)
    if not r.ok:
        raise vp.Infra("UserLalr did not complete:\n" + r.out[-3000:])
    ck.coverage["traces_validated_against_impl"] += len(arts)
    perr = [d for d in r.printed("PARSEERROR") if not arts[d["id"]]["perr"].startswith("panic")]
    for d in r.printed("PARSEERROR"):
        a = arts[d["id"]]
        if a["perr"].startswith("panic"):
            ck.violation("%s %r: emerge panics: %s" % (a["id"], a["text"].replace("\n", " "), a["perr"][:120]),
                         {"property": "C06", "kind": "panic", "id": a["id"], "text": a["text"]})
    # the textbook and operator grammars are hand-written and well-formed: spec.Parse rejecting one of them (a precedence
    # level "appearing twice", a handle not found) is a verdict, not an infrastructure failure
    hand = [d for d in perr if arts[d["id"]]["fam"] in ("textbook", "op")]
    for d in hand:
        a = arts[d["id"]]
        ck.violation("well-formed grammar with directives rejected before the table is built: %s %r: %s" % (a["id"], a["text"].replace("\n", " "), a["perr"][:160].replace("\n", " ")),
                     {"property": "C06", "kind": "rejected", "id": a["id"], "text": a["text"]})
    perr = [d for d in perr if d not in hand]
    if perr:
        a = arts[perr[0]["id"]]
        raise vp.Infra("%d grammar texts were rejected by spec.Parse, e.g. %r: %s" % (len(perr), a["text"], a["perr"][:200]))
    nested = {d["id"] for d in r.printed("NESTED")}
    ck.coverage["grammars_with_nested_kernels"] = len(nested)
    for tag in ("TABLEDIFF-NESTED", "LANGUAGE-NESTED"):
        for d in r.printed(tag):
            a = arts[d["id"]]
            what = "%s %r: %s" % (a["id"], a["text"].replace("\n", " "), TAGS[tag.split("-")[0]])
            if not ck.known("SUPERSET-GOTO", what):
                ck.violation(what, {"property": "C06", "kind": tag, "id": a["id"], "text": a["text"]})
    for tag, what in TAGS.items():
        for d in r.printed(tag):
            a = arts[d["id"]]
            ck.violation("%s: %s %r %s" % (what, a["id"], a["text"].replace("\n", " "), a["terr"][:100].replace("\n", " ")),
                         {"property": "C06", "kind": tag, "id": a["id"], "text": a["text"], "decls": a.get("decls", [])})
    return r


def run(ck):
    quick = ck.tier == "quick"
    k = 4 if quick else 5
    ck.stage_specs()
    if ck.args.replay:
        rp = json.load(open(ck.args.replay))
        vp.write_ndjson(os.path.join(ck.work, "tla", "lalr_in.ndjson"), [{"id": rp.get("id", "R"), "fam": "op" if rp.get("id", "").startswith("op-") else "r", "text": rp["text"]}])
        ck.run_harness(["lalr-export", "-in", "tla/lalr_in.ndjson", "-out", "tla/lalr.ndjson"])
        arts = {a["id"]: a for a in vp.read_ndjson(os.path.join(ck.work, "tla", "lalr.ndjson"))}
        for a in arts.values():
            a["decls"] = rp.get("decls", [])
        vp.write_ndjson(os.path.join(ck.work, "tla", "lalr.ndjson"), list(arts.values()))
        decide(ck, arts, k)
        ck.sample({"replayed": rp["text"]})
        return ck.finish()
    cases = [{"id": n, "fam": "textbook", "text": t} for n, t in TEXTBOOK.items()]
    cases += [{"id": n, "fam": "op", "text": t} for n, t in operator_grammars(3).items()]
    gen, nb = generated(ck, 1500 if quick else 12000, 250 if quick else 2500)
    decls = {}
    for i, g in enumerate(gen):
        gid = "%s-%d" % (g["fam"], i)
        decls[gid] = g["decls"]
        cases.append({"id": gid, "fam": g["fam"], "text": g["text"]})
    vp.write_ndjson(os.path.join(ck.work, "tla", "lalr_in.ndjson"), cases)
    ck.run_sharded("lalr-export", "tla/lalr_in.ndjson", "tla/lalr.ndjson", timeout=1800)
    arts = {a["id"]: a for a in vp.read_ndjson(os.path.join(ck.work, "tla", "lalr.ndjson"))}
    relevelled = 0
    for a in arts.values():
        a["decls"] = decls.get(a["id"], [])
        # the table is judged against the directives as WRITTEN: where spec.Parse recorded other levels than the text
        # declares, TLC builds its reference table from the declared ones (and the difference shows as a table difference)
        if a["fam"] in ("textbook", "op") and not a["perr"]:
            want = declared_levels(a["text"])
            if want is not None and norm_levels(want) != norm_levels(a["levels"]):
                a["levels"] = want
                relevelled += 1
    ck.coverage["specs_whose_recorded_levels_differ_from_the_text"] = relevelled
    vp.write_ndjson(os.path.join(ck.work, "tla", "lalr.ndjson"), list(arts.values()))
    nb_built = sum(1 for a in arts.values() if a["built"])
    ck.log("%d grammars: %d tables returned, %d conflict reports" % (len(arts), nb_built, sum(1 for a in arts.values() if a["conflict"])))
    if ck.args.selftest:
        a = next(a for a in arts.values() if a["built"] and a["fam"] == "op")
        row = next(r for r in a["act"] if any(v[0] == "r" for v in r.values()))
        key = next(kk for kk, v in row.items() if v[0] == "r")
        del row[key]
        b = next(x for x in arts.values() if x["built"] and x["id"] != a["id"])
        b["built"], b["conflict"], b["terr"] = False, True, "Ambiguous Grammar (made up by the selftest)"
        vp.write_ndjson(os.path.join(ck.work, "tla", "lalr.ndjson"), [a, b])
        r = ck.tlc("UserLalr", constants={"K": 3})
        h = len(r.printed("TABLEDIFF")) + len(r.printed("TABLEDIFF-NESTED")) + len(r.printed("FALSEREJECT"))
        print("SELFTEST %s: a reduce entry dropped / a table turned into a conflict report -> %d report(s)" % ("OK" if h >= 2 else "FAILED", h))
        return 0 if h >= 2 else 2
    r = decide(ck, arts, k)
    for a in list(arts.values())[:: max(1, len(arts) // 10)]:
        ck.sample({"id": a["id"], "text": a["text"], "states": a["nstates"], "conflict_reported": a["conflict"]})
    ck.assumptions += ["the derived grammar and the precedence levels are taken from spec.Parse (C01, C12 decide them)",
                       "conflict resolution as documented: earlier level wins; same level: @left reduce, @right shift, @none unresolved; production = its leftmost terminal",
                       "language compared on all terminal strings up to length %d; state 0 is the initial state of a returned table" % k]
    return ck.finish({"exhaustive": True, "grammars": len(arts), "textbook": len(TEXTBOOK), "operator_tables": sum(1 for a in arts.values() if a["fam"] == "op"),
                      "generated": sum(1 for g in gen if g["fam"] == "gen"), "end_to_end_specs": sum(1 for g in gen if g["fam"] == "ebnf"), "generated_space": nb * nb, "tables_returned": nb_built, "K": k})
