"""C10 - the direct (followpos) pattern-to-DFA construction agrees with the NFA route and with the documented meaning."""
import vp
import regexcommon as rc

LEVEL = "model_checking"
ROUTES = ["nfa0", "ast"]
FAMS = ["F1", "F2", "F3", "F4", "F5", "F6", "F7", "F8", "F10", "F13", "F14"]


def run(ck):
    if ck.args.replay:
        return rc.replay_file(ck, "C10", ck.args.replay)
    maxsize = 3 if ck.tier == "quick" else 4
    rc.generate(ck, maxsize, FAMS, f14=16 if ck.tier == "quick" else 2)
    rc.random_terms(ck, 20 if ck.tier == "quick" else 200, 12, keep=300 if ck.tier == "quick" else 4000)
    arts = rc.export(ck, ROUTES, FAMS)
    if ck.args.selftest:
        victim = rc.selftest_corrupt(ck, arts)
        r = ck.tlc("RegexProduct")
        hit = [d for d in r.printed("DISAGREE") if d["id"] == victim and d["impl"][0] != d["refk"]]
        print("SELFTEST %s: corrupted artifact %s -> %d disagreement(s) reported by TLC" %
              ("OK" if hit else "FAILED", victim, len(hit)))
        return 0 if hit else 2
    r, per, berr = rc.product(ck, arts, ROUTES, "C10")
    fams = {}
    for a in arts.values():
        fams[a["fam"]] = fams.get(a["fam"], 0) + 1
    for a in [x for x in arts.values() if x["fam"] == "F8"][::25] + list(arts.values())[:: max(1, len(arts) // 6)]:
        ck.sample({"id": a["id"], "pattern": a["pat"], "classes": len(a["classes"]),
                   "states": {x["name"]: len(x["acc"]) for x in a["autos"]}})
    ck.assumptions += [
        "three-way product: reference derivatives x NFA-route DFA (nfa.Parse.ToDFA) x followpos DFA (ast.Parse.ToDFA)",
        "string domain ASCII 1..127 plus named code points; same generators as C02 plus family F8 (nullable operands, epsilon patterns, cloned ranges)",
    ]
    return ck.finish({
        "exhaustive": True, "patterns": len(arts), "families": fams, "routes": ROUTES, "max_tree_size": maxsize,
        "disagreeing_patterns": len(per), "build_errors": len(berr),
    })
