"""C09 - a pattern is accepted only as a whole sentence of the documented pattern grammar."""
import json
import re
import os
import random

import vp
import regexcommon as rc

LEVEL = "model_checking"
ALPHA_FULL = '^$()[]{}|.?*+\\-,:ab01xAFpsd'
ALPHA_SMALL = '^$()[]{}|.?*+\\-,:a1xAp'

SEM = [  # (text, the range the error must name)
    ("[c-a]", "c-a"), ("[z-a]x", "z-a"), ("x[9-0]+", "9-0"), ("[a-cz-x]", "z-x"), ("a{3,1}", "{3,1}"),
    ("(ab){2,1}?", "{2,1}"), ("x[b-a]{2}", "b-a"), ("a{1,0}b", "{1,0}"), ("[\\x7A-\\x61]", "z-a"),
    ("(a|b{5,2})", "{5,2}"), ("[^c-a]", "c-a"), ("a{10,9}", "{10,9}"),
]


def descending_ranges():
    """Every descending character range over a set of code points that includes the metacharacters, each bound written in
    every documented form (the character itself when it needs no escape, \\xHH, \\xHHHH), plain and inside a negated
    group: all are sentences of the documented grammar, and all must be rejected with an error that names the range."""
    pts = [0x21, 0x2D, 0x30, 0x39, 0x41, 0x5A, 0x5B, 0x5C, 0x5D, 0x5E, 0x61, 0x7A, 0x7E]

    def forms(c):
        f = ["\\x%02X" % c, "\\x%04X" % c, "\\x%08X" % c]               # 2, 4 and 8 digits: the ends of the documented widths
        if c in (0x41, 0x5A):
            f += ["\\x%05X" % c, "\\x%06X" % c, "\\x%07X" % c]
        if chr(c).isalnum():
            f.append(chr(c))
        return f
    out = []
    for lo in pts:
        for hi in pts:
            if lo > hi:
                for a in forms(lo):
                    for b in forms(hi):
                        out.append(("[%s-%s]" % (a, b), "%s-%s" % (chr(lo), chr(hi))))
                out.append(("x[^0%s-%s]+" % (forms(lo)[0], forms(hi)[0]), "%s-%s" % (chr(lo), chr(hi))))
    return out


# every category name of the documented unicode_category rule, in both polarities, alone, in a group, nested
CATEGORIES = ("Math Emoji Latin Greek Cyrillic Han Persian Letter Lu Ll Lt Lm Lo L Mark Mn Mc Me M Number Nd Nl No N "
              "Punctuation Pc Pd Ps Pe Pi Pf Po P Separator Zs Zl Zp Z Symbol Sm Sc Sk So S").split()
CATEGORY_CANON = [f % c for c in CATEGORIES for f in ("\\p{%s}", "\\P{%s}", "[a\\p{%s}]", "(x|\\P{%s})+y")]

HAND_CANON = CATEGORY_CANON + ["[A-\\x0000005A]", "[\\x00000041-\\x0000005A]", "[\\x00041-\\x0005A]", "[\\x000041-\\x00005A]", "[\\x0000041-\\x000005A]",
                               "\\x00000041+", "a\\x0000005A{2}", "[^\\x00000041]","[a-c]-a", "[0-9]-[0-9]", "[a-c]-", "a-b", "[a\\x2D]", "-?[0-9]+(\\.[0-9]+)?", "[A-Za-z_][0-9A-Za-z_]*",
              "\"([\\x21\\x23-\\x5B\\x5D-\\x7E]|\\\\[\\x21-\\x7E])+\"", "(#|//)[\\x09\\x20-\\x7E]*|/\\*[\\x09\\x0A\\x0D\\x20-\\x7E]*?\\*/"]


def single_edits(p, alphabet):
    out = set()
    for i in range(len(p)):
        out.add(p[:i] + p[i + 1:])
        for c in alphabet:
            out.add(p[:i] + c + p[i + 1:])
    for i in range(len(p) + 1):
        for c in alphabet:
            out.add(p[:i] + c + p[i:])
    out.discard(p)
    return out


def decide(ck, recs):
    """TLC decides every record; returns the reports."""
    vp.write_ndjson(os.path.join(ck.work, "tla", "strings.ndjson"), recs)
    r = ck.tlc("PatternAccept", timeout=2400)
    if not r.ok:
        raise vp.Infra("PatternAccept did not complete:\n" + r.out[-3000:])
    return r


def run(ck):
    if ck.args.replay:
        rp = json.load(open(ck.args.replay))
        ck.stage_specs()
        inp = os.path.join(ck.work, "one.ndjson")
        vp.write_ndjson(inp, [{"text": rp["text"], "kind": rp.get("rkind", "sweep"), "expect": rp.get("expect", "")}])
        ck.run_harness(["pattern-list", "-in", inp, "-out", os.path.join(ck.work, "one.out")])
        recs = vp.read_ndjson(os.path.join(ck.work, "one.out"))
        r = decide(ck, recs)
        bad = [t for t in ("NOTINDOC", "ENTRYPOINTS", "REJECTED", "SEMANTIC") if r.printed(t)]
        ck.coverage["traces_validated_against_impl"] = 1
        ck.sample({"text": rp["text"], "reports": bad})
        if bad:
            ck.violation("pattern text %r: %s" % (rp["text"], ",".join(bad)), rp)
        return ck.finish()

    quick = ck.tier == "quick"
    ck.stage_specs()
    # (a) exhaustive sweep of all strings over the reduced alphabet
    sweeps = [(ALPHA_FULL, 4)] if quick else [(ALPHA_FULL, 4), (ALPHA_SMALL, 5)]
    recs = []
    swept = 0
    for n, (alpha, maxlen) in enumerate(sweeps):
        outs = ck.run_sharded("pattern-sweep", "-", "sweep%d.ndjson" % n, extra=["-alphabet", alpha, "-maxlen", str(maxlen)],
                              timeout=1800)
        for o in outs:
            for l in o.splitlines():
                if l.startswith("SWEPT"):
                    swept += int(l.split()[1])
        recs += vp.read_ndjson(os.path.join(ck.work, "sweep%d.ndjson" % n))
    ck.log("sweep: %d strings run through nfa.Parse and ast.Parse, %d accepted by at least one" % (swept, len(recs)))

    # (b) canonical prints of the generated pattern trees + hand-written unambiguous forms
    rc.generate(ck, 3 if quick else 4, [])
    ck.run_harness(["regex-print", "-in", "tla/gen_cases.ndjson", "-out", "canon_in.ndjson"])
    canon = vp.read_ndjson(os.path.join(ck.work, "canon_in.ndjson"))
    canon += [{"text": t, "kind": "canon", "fam": "hand", "expect": ""} for t in HAND_CANON]
    # (b') meaningless ranges
    sem = [{"text": t, "kind": "sem", "fam": "sem", "expect": e} for (t, e) in SEM + descending_ranges()]
    # (c) every single-character edit of a sample of valid patterns
    rnd = random.Random(ck.seed)
    pool = [c["text"] for c in canon if c["fam"] in ("F2", "F3", "F5", "F8", "hand", "F6") and len(c["text"]) <= 24]
    pool = rnd.sample(pool, min(len(pool), 150 if quick else 700))
    edits = set()
    for p in pool:
        edits |= single_edits(p, ALPHA_FULL)
    edits -= set(c["text"] for c in canon)
    # an edit can turn a small range into one of 10^5 code points ([a-\x1F600]); such a range is expanded code point by code
    # point (C14, HUGE-RANGE) and sixteen of them in parallel exhaust the memory: ranges ending beyond U+1000 are left out
    edits = set(e for e in edits if not any(int(h, 16) > 0x1000 for h in re.findall(r"-\\x([0-9A-Fa-f]{4,8})", e)))
    # ... and an 8-digit LOWER bound from 80000000 on is a negative code point: the range then spans 2^31 code points
    edits = set(e for e in edits if not any(int(h, 16) > 0x1000 for h in re.findall(r"\\x([0-9A-Fa-f]{5,8})", e)))
    # the same for a repetition of a class of 10^5 code points: followpos of \p{Han}* is quadratic in the class (65 GB)
    edits = set(e for e in edits if not (("Han" in e or "\\P{" in e) and re.search(r"[*+{]", re.sub(r"\\[pP]\{[^}]*\}?", "", e))))
    # names that are NOT documented categories: every key of the implementation's own rune-class table and a list of plausible
    # ones, inside \\p{..} / \\P{..} - all of them must be rejected
    keys = json.loads(ck.run_harness(["class-keys"]).stdout)
    plausible = ["ASCII", "Any", "C", "Cc", "Cf", "Co", "Cs", "LC", "Digit", "Alpha", "Space", "Word", "Upper", "Lower", "Arabic", "Hebrew",
                 "Thai", "Common", "Other", "latin", "lu", "LETTER", "Lx", "Ll2", "Nd_"]
    odd = sorted(set(k for k in keys + plausible if k not in CATEGORIES and all(ch.isalnum() or ch in "_-" for ch in k) and k))
    edits |= set(f % k for k in odd for f in ("\\p{%s}", "\\P{%s}", "[a\\p{%s}]", "x\\p{%s}+"))
    lst = canon + sem + [{"text": t, "kind": "sweep", "fam": "edit", "expect": ""} for t in sorted(edits)]
    vp.write_ndjson(os.path.join(ck.work, "list_in.ndjson"), lst)
    ck.run_sharded("pattern-list", "list_in.ndjson", "list_out.ndjson", timeout=1800)
    listed = vp.read_ndjson(os.path.join(ck.work, "list_out.ndjson"))
    nlisted = len(listed)
    keep = [r for r in listed if r["kind"] != "sweep" or r["nfa"] == "" or r["ast"] == ""]
    ck.log("canonical prints: %d, semantic-error patterns: %d, single edits: %d (of %d patterns), of which accepted: %d" %
           (len(canon), len(sem), len(edits), len(pool), len(keep) - len(canon) - len(sem)))
    recs += keep

    r = decide(ck, recs)
    ck.coverage["traces_validated_against_impl"] = len(recs)
    for tag, kind in (("NOTINDOC", "accepted-not-in-grammar"), ("ENTRYPOINTS", "entry-points-disagree"),
                      ("REJECTED", "canonical-rejected"), ("SEMANTIC", "meaningless-range-accepted-or-unnamed")):
        for d in r.printed(tag):
            rec = recs[d["i"] - 1]
            ck.violation("%s: pattern text %r (nfa: %s | ast: %s)" % (kind, rec["text"], rec["nfa"] or "accepted", rec["ast"] or "accepted"),
                         {"property": "C09", "kind": kind, "text": rec["text"], "rkind": rec["kind"],
                          "expect": next((e for (t, e) in SEM if t == rec["text"]), "")})
    if r.printed("BADPRINT"):
        bad = [recs[d["i"] - 1]["text"] for d in r.printed("BADPRINT")][:5]
        raise vp.Infra("harness printed patterns that are not sentences of the documented grammar: %r" % bad)
    for rec in recs[:: max(1, len(recs) // 10)]:
        ck.sample({"text": rec["text"], "kind": rec["kind"], "nfa": rec["nfa"] or "accepted", "ast": rec["ast"] or "accepted"})
    ck.assumptions += [
        "documented grammar transcribed in spec/PatternGrammar.tla (all parses at once; ambiguity harmless)",
        "'char'/'unescaped_char' range over the swept alphabet; unambiguous canonical forms are those of the harness printer",
    ]
    return ck.finish({
        "exhaustive": True, "strings_swept": swept, "alphabets": [a for a, _ in sweeps], "max_len": [m for _, m in sweeps],
        "accepted_strings_decided_by_TLC": len(recs), "canonical_prints": len(canon), "semantic_error_patterns": len(sem),
        "single_edit_strings": len(edits), "listed_strings_run": nlisted,
    })
