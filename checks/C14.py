"""C14 - no input crashes or hangs emerge; failures are errors and clean non-zero exits."""
import concurrent.futures
import itertools
import json
import os
import random
import subprocess

import vp
import emitcommon as ec
from C15 import ORDER_SENSITIVE, DEP_ORDER

LEVEL = "exploration"
G = "grammar %s;\n"
DEGENERATE = {
    # more than 64 states in a row (the automata library's queue): an error, never a stack trace
    "chain70": "grammar t;\nAS = /a{70}/;\nstart = AS;\n",
    "keyword70": "grammar t;\nstart = \"" + "k" * 70 + "\";\n",
    "three-chains": "grammar t;\nAS = /a{1,16}/;\nBS = /b{1,32}/;\nCS = /c{1,17}/;\nstart = AS | BS | CS;\n",
    "unit-cycle": G % "uc" + 'start = start | x "b";\nx = "b" x | "b";\n',
    "non-generating": G % "ng" + 'start = x x | start "a";\nx = start start | start x;\n',
    "eps-cycle": G % "ec" + 'start = start start | "a" | ;\n',
    "empty": "",
    "only-name": "grammar x",
    "nul": "grammar t;\x00start = \"a\";\n",
    "bom": "﻿grammar t;\nstart = \"a\";\n",
    "crlf": "grammar t;\r\nstart = \"a\";\r\n",
    "deep": G % "deep" + "start = " + "(" * 40 + '"a"' + ")" * 40 + ";\n",
    "long-alt": G % "la" + "start = " + " | ".join('"k%d"' % i for i in range(300)) + ";\n",
    "binary": bytes(range(256)).decode("latin-1"),
}
# a string literal spelled like another symbol of the same specification (a token name, a rule name, a keyword, a predefined
# name, a directive), used before and after that symbol's declaration, in a rule and in a directive
COLLISIONS = {}
for _i, _decl in enumerate(['IF = "if";', 'IF = /if/;', 'IF = $ID;', 'IF = "IF";']):
    for _j, _use in enumerate(['start = "IF" ID;', 'start = ID "IF";', 'start = IF "IF" ID;', 'start = ID;\n@left "IF";', 'start = IF ID;\n@right "IF" IF;']):
        for _k, _lines in enumerate(([_use, _decl, 'ID = /[a-z]+/;'], [_decl, 'ID = /[a-z]+/;', _use], ['ID = /[a-z]+/;', _use, _decl])):
            COLLISIONS["collide-%d-%d-%d" % (_i, _j, _k)] = "grammar t;\n" + "\n".join(_lines) + "\n"
for _i, _w in enumerate(["start", "grammar", "$ID", "@left", "t", "x", "ID"]):
    COLLISIONS["collide-word-%d" % _i] = 'grammar t;\nstart = x "%s" ID;\nx = "%s" | ;\nID = /[a-z]+/;\n@left "%s";\n' % (_w, _w, _w)
PATTERN_ALPHABET = '^$()[]{}|.?*+\\-,:ab01xAFpsd'
# hexadecimal escapes of every documented width (2 and 4..8 digits) at the interesting values, alone and as items, bounds and
# negated items of a bracket group
HEX_VALUES = ["00", "7F", "0080", "FFFF", "10FFFF", "110000", "7FFFFFFF", "80000000", "FFFFFFFF", "00000041"]
HEX_SMALL = ["00", "7F", "0080", "0FFF", "00000041"]
HEX_PATTERNS = [f % ("\\x" + v) for v in HEX_VALUES for f in ("%s", "[%s]", "[^%s]", "a%s+", "(%s|b)*")] + \
               ["[\\x%s-\\x%s]" % (a, b) for a in HEX_SMALL for b in HEX_SMALL] + \
               ["[a-\\xFFFFFFFF]", "[\\xFFFFFFFF-z]", "[\\x7FFFFFFF-\\x80000000]", "[\\x0080-\\xFFFF]"]   # one wide range (known finding HUGE-RANGE)
SPECIAL_PATTERNS = HEX_PATTERNS + ["", "\\x", "\\x0", "\\x00", "[\\x00E9]", "[\\x00E9-\\x00EA]", "\\p{", "\\p{Latin}", "\\P{Greek}+", "[[:alpha:]", "[:alpha:]", "a{", "a{1", "a{1,", "a{,2}",
                    "a{99999999999999999999}", "a{1000}", "(a{20}){20}", "((((((((((a*)*)*)*)*)*)*)*)*)*)*", "é", "中文", "\\é", "[é]", "a\x00b", "\n", "[a-\\]", "(?:a)", "a|*",
                    "[^]", "[]", "()", "(|)", "a||b", "^^a", "a$$", ".{0}", "x{0,0}?"]
CLI_LINES = [[], ["-h"], ["--help"], ["-help", "x"], ["-version"], ["--version"], ["-out"], ["-name"], ["-out", ""], ["-name", ""], ["-name=", "g.ebnf"],
             ["-x"], ["--"], ["--", "g.ebnf"], ["-", "g.ebnf"], ["g.ebnf", "h.ebnf"], ["g.ebnf", "-debug"], ["-debug=maybe", "g.ebnf"], ["-verbose=2", "g.ebnf"],
             ["/dev/null"], ["/proc/self/mem"], ["."], ["g.ebnf/"], ["\x00"], ["-out", "/proc/nonexistent", "g.ebnf"], ["-out=/dev/null", "g.ebnf"],
             ["-name", "a b", "g.ebnf"], ["-name", "../../etc", "g.ebnf"], ["-name", "été", "g.ebnf"], ["bad.ebnf"], ["degenerate.ebnf"], ["binary.ebnf"], ["empty.ebnf"]]


def cli_runs(ck, binary):
    d = os.path.join(ck.work, "c14cli")
    os.makedirs(d)
    open(os.path.join(d, "g.ebnf"), "w").write(ec.POOL["kw"])
    open(os.path.join(d, "h.ebnf"), "w").write(ec.POOL["ops"])
    open(os.path.join(d, "bad.ebnf"), "w").write(ORDER_SENSITIVE["undef-mixed"])
    open(os.path.join(d, "degenerate.ebnf"), "w").write(DEGENERATE["unit-cycle"])
    open(os.path.join(d, "binary.ebnf"), "wb").write(bytes(range(256)))
    open(os.path.join(d, "empty.ebnf"), "w").write("")
    res = []
    for i, argv in enumerate(CLI_LINES):
        out = os.path.join(d, "run%d" % i)
        os.makedirs(out)
        a = [x for x in argv]
        try:
            p = subprocess.run([binary, "-out", out] + a if "-out" not in " ".join(a) else [binary] + a, cwd=d, stdout=subprocess.PIPE, stderr=subprocess.PIPE, timeout=60)
            rc, err = p.returncode, (p.stdout + p.stderr).decode("utf-8", "replace")
        except subprocess.TimeoutExpired:
            rc, err = -9, "timeout"
        except ValueError as e:       # embedded NUL in an argument: cannot even be passed to exec
            continue
        kind = "ok" if rc == 0 else "err"
        if rc == -9:
            kind = "timeout"
        elif "goroutine " in err or "panic:" in err or rc == 2 and "panic" in err:
            kind = "stacktrace"
        elif rc != 0 and not err.strip():
            kind = "silentfailure"
        res.append({"argv": argv, "rc": rc, "kind": kind, "out": err[-200:]})
    return res


def wide_range(pattern):
    """the pattern contains a character range \\xLOW-\\xHIGH that spans more than 4096 code points"""
    import re
    for lo, hi in re.findall(r"\\x([0-9A-Fa-f]{2,8})-\\x([0-9A-Fa-f]{2,8})", pattern):
        a, b = int(lo, 16), int(hi, 16)
        if a <= 0x7FFFFFFF and b <= 0x7FFFFFFF and b - a > 0xFFF:
            return True
    return False


def still_hangs(ck, b):
    """A watchdog expiry inside the sweep can be the machine being busy: the one input is run again, alone, in a process of
    its own, with 120 s; only an entry point that still does not return counts as hanging."""
    kind = "pattern" if b["ep"] in ("nfa.Parse", "regex ast.Parse", "regexToDFA") else "rawspec"
    vp.write_ndjson(os.path.join(ck.work, "one_in.ndjson"), [{"id": "one", "kind": kind, "text": b["input"]}])
    os.makedirs(os.path.join(ck.work, "gd1"), exist_ok=True)
    try:
        ck.run_harness(["totality", "-in", "one_in.ndjson", "-out", "one_out.ndjson", "-budget", "120", "-mutate=false", "-gendir", os.path.join(ck.work, "gd1")], timeout=900)
    except vp.Infra:
        return True
    for d in vp.read_ndjson(os.path.join(ck.work, "one_out.ndjson")):
        for x in d["bad"] or []:
            if x["kind"] == "timeout":
                return True
    return False


def run(ck):
    quick = ck.tier == "quick"
    ck.stage_specs()
    r0 = ck.tlc("Pipeline", workers=2, timeout=300)
    if not r0.ok:
        raise vp.Infra("Pipeline.tla did not check:\n" + r0.out[-2000:])
    rnd = random.Random(ck.seed)
    specs = dict(ec.POOL)
    specs.update(ORDER_SENSITIVE)
    specs.update(DEP_ORDER)
    items = []
    names = sorted(specs)
    # single-byte mutations are applied to a fixed handful in the quick tier (the pool keeps growing for other checks)
    mutated = names if not quick else [n for n in ("kw", "eolcomment", "quotes", "number", "nested", "ops", "mixedws", "undef3", "lalr-conflicts", "dup-handles") if n in names]
    for n in names:
        items.append({"id": n, "kind": "spec" if n in mutated else "rawspec", "text": specs[n]})
    for n, t in list(DEGENERATE.items()) + list(COLLISIONS.items()):
        items.append({"id": n, "kind": "rawspec", "text": t})
    # every ill-formed and well-formed specification of C07's generator (declaration kinds in every order, each defect
    # one at a time and in pairs): the entry points must survive all of them, whatever they answer
    g = ck.tlc("SpecPoolGen", constants={"K": 3, "MaxDecls": 3, "MaxExtra": 2}, workers=4, count=False, timeout=1200)
    if "GENERATED" not in g.out:
        raise vp.Infra("SpecPoolGen failed:\n" + g.out[-2000:])
    ck.run_harness(["ebnf-print", "-in", "tla/gen_specs.ndjson", "-out", "tla/gen_texts.ndjson"])
    pool_texts = vp.read_ndjson(os.path.join(ck.work, "tla", "gen_texts.ndjson"))
    if quick:
        pool_texts = rnd.sample(pool_texts, min(len(pool_texts), 1500))
    items += [{"id": "pool-%d" % i, "kind": "rawspec", "text": t["text"]} for i, t in enumerate(pool_texts)]
    pats = list(SPECIAL_PATTERNS)
    for l in (1, 2, 3):
        for w in itertools.product(PATTERN_ALPHABET, repeat=l):
            pats.append("".join(w))
    if not quick:
        pats += ["".join(rnd.choice(PATTERN_ALPHABET + "é\x01 ~") for _ in range(rnd.randint(4, 12))) for _ in range(100000)]
    else:
        pats += ["".join(rnd.choice(PATTERN_ALPHABET + "é\x01 ~") for _ in range(rnd.randint(4, 12))) for _ in range(8000)]
    items += [{"id": "p", "kind": "pattern", "text": p} for p in pats]
    if ck.args.replay:
        rp = json.load(open(ck.args.replay))
        items = [{"id": "replay", "kind": "pattern" if rp.get("ep", "").startswith(("nfa", "regex")) else "rawspec", "text": rp["input"]}]
    vp.write_ndjson(os.path.join(ck.work, "tot_in.ndjson"), items)
    os.makedirs(os.path.join(ck.work, "gd"), exist_ok=True)
    ck.run_sharded("totality", "tot_in.ndjson", "tot_out.ndjson", extra=["-gendir", os.path.join(ck.work, "gd")], timeout=3000)
    counts, bad, evals, inputs, nontrivial = {}, [], 0, 0, 0
    for d in vp.read_ndjson(os.path.join(ck.work, "tot_out.ndjson")):
        if True:
            for k, v in d["counts"].items():
                counts[k] = counts.get(k, 0) + v
            bad += d["bad"] or []
            evals += d["evals"]
            inputs += d["inputs"]
            nontrivial += d["nontrivial"]
    # the command line
    binary = os.path.join(ck.work, "bin", "emerge")
    os.makedirs(os.path.dirname(binary), exist_ok=True)
    p = subprocess.run(["go", "build", "-o", binary, "./cmd/emerge"], cwd=vp.REPO, env=ec.go_env(), stdout=subprocess.PIPE, stderr=subprocess.STDOUT, text=True)
    if p.returncode != 0:
        raise vp.Infra("emerge does not build:\n" + p.stdout[-2000:])
    cli = [] if ck.args.replay else cli_runs(ck, binary)
    for c in cli:
        counts["cli " + c["kind"]] = counts.get("cli " + c["kind"], 0) + 1
        evals += 1
        inputs += 1
    rows = [{"ep": k.rsplit(" ", 1)[0], "kind": k.rsplit(" ", 1)[1], "n": v} for k, v in sorted(counts.items())]
    if ck.args.selftest:
        rows.append({"ep": "made.up", "kind": "panic", "n": 1})
    vp.write_ndjson(os.path.join(ck.work, "tla", "totality.ndjson"), rows)
    r = ck.tlc("TotalityCheck", workers=2, timeout=600)
    if not r.ok:
        raise vp.Infra("TotalityCheck did not complete:\n" + r.out[-2000:])
    nt = r.printed("NOTTOTAL")
    if ck.args.selftest:
        hit = [x for x in nt if x["ep"] == "made.up"]
        print("SELFTEST %s: a made-up panic row -> %d report(s)" % ("OK" if len(hit) == 1 else "FAILED", len(hit)))
        return 0 if len(hit) == 1 else 2
    seen = set()
    for b in bad:
        key = (b["ep"], b["kind"], b["msg"][:60])
        if key in seen:
            continue
        seen.add(key)
        what = "%s: %s on input %r %s" % (b["ep"], b["kind"], b["input"][:120], b["msg"][:160])
        import re as _re
        if b["kind"] == "timeout" and wide_range(b["input"]) and ck.known("HUGE-RANGE", what):
            continue
        if b["kind"] == "timeout" and _re.search(r"\{\s*\d{4,}", b["input"]) and ck.known("HUGE-REPETITION", what):
            continue
        if b["kind"] == "timeout" and not still_hangs(ck, b):
            ck.notes.append("slow, not hanging (returned within 120 s when run alone): %s on %r" % (b["ep"], b["input"][:80]))
            continue
        ck.violation(what, {"property": "C14", "kind": b["kind"], "ep": b["ep"], "input": b["input"]})
    for c in cli:
        if c["kind"] not in ("ok", "err"):
            ck.violation("emerge %s: %s (exit %d): %s" % (" ".join(map(repr, c["argv"])), c["kind"], c["rc"], c["out"][-160:].replace("\n", " ")),
                         {"property": "C14", "kind": "cli-" + c["kind"], "argv": c["argv"]})
    if len(nt) and not bad and not any(c["kind"] not in ("ok", "err") for c in cli):
        raise vp.Infra("the outcome table has disallowed kinds but no bad case was recorded: %s" % nt)
    ck.log("%d inputs, %d entry-point evaluations; outcome table: %s" % (inputs, evals, {k: v for k, v in sorted(counts.items())}))
    return ck.finish({"evaluations": evals, "distinct_nontrivial": nontrivial,
                      "rule": "every single-byte deletion, replacement and insertion (30 byte values incl. NUL, quotes, brackets, non-ASCII lead/continuation bytes) and every truncation of %d specifications, %d further specifications as they are (ill-formed, degenerate grammars, binary, empty), all pattern strings of length <=3 over 27 characters plus %d special and random patterns, %d command lines; through parser.Parse, ParseAndBuildAST, ast.Parse, spec.Parse, Spec.DFA, Spec.LALRParsingTable, golang.Generate, nfa.Parse(+ToDFA), regex ast.Parse(+ToDFA), regexToDFA, each under recover() and a 10 s watchdog. Non-trivial = inputs that got past the first entry point or were rejected with an error (i.e. not lost to infrastructure)." % (len(mutated), len(items) - len(pats) - len(mutated), len(pats) - 27 - 729 - 19683, len(cli)),
                      "samples": [{"outcome_table": counts}] + [{"cli": c["argv"], "exit": c["rc"]} for c in cli[:6]],
                      "inputs": inputs, "states": r0.distinct, "exhaustive": False})
