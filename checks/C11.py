"""C11 - the syntax trees of a specification reflect the source exactly and round-trip."""
import json
import os

import vp
import lrcommon as lc

LEVEL = "model_checking"
TAGS = {"GENERIC": "parse tree: leaves are not the source tokens with their positions, or a node does not apply a documented production",
        "TYPED": "typed tree differs from the specification as written (declarations, operators, nesting, operand order)",
        "TYPEDPOS": "the typed tree records a declaration or a handle of a directive at another place than its first token",
        "ROUNDTRIP": "printing the typed tree and parsing it again does not give an equal tree",
        "GRAMMAR": "the grammar read off the typed tree differs from the one emerge derives"}


def decide(ck, arts):
    r = ck.tlc("AstCheck", constants={"K": 4}, timeout=3000)
    if not r.ok:
        raise vp.Infra("AstCheck did not complete:\n" + r.out[-3000:])
    ck.coverage["traces_validated_against_impl"] += len(arts)
    for tag, what in TAGS.items():
        for d in r.printed(tag):
            a = arts[d["id"]]
            ck.violation("%s: %r %s" % (what, a["text"].replace("\n", " "), (a["generr"] or a["typerr"] or a["rtnote"])[:160]),
                         {"property": "C11", "kind": tag, "text": a["text"], "decls": a["decls"]})
    return r


def export(ck):
    ck.run_sharded("ast-export", "tla/gen_specs.ndjson", "tla/asts.ndjson", timeout=1200)
    return {a["id"]: a for a in vp.read_ndjson(os.path.join(ck.work, "tla", "asts.ndjson"))}


def run(ck):
    quick = ck.tier == "quick"
    ck.stage_specs()
    if ck.args.replay:
        rp = json.load(open(ck.args.replay))
        vp.write_ndjson(os.path.join(ck.work, "tla", "gen_specs.ndjson"), [{"fam": "R", "decls": rp["decls"]}])
        decide(ck, export(ck))
        ck.sample({"replayed": rp["text"]})
        return ck.finish()
    n = lc.gen_specs(ck, {"K": 4, "MaxSize": 4 if quick else 5, "ShareSize": 2 if quick else 3}, drop=("F3",))
    arts = export(ck)
    ck.log("%d specifications exported (generic tree, typed tree, round trip, derived grammar)" % len(arts))
    if ck.args.selftest:
        a = next(a for a in arts.values() if a["gen"] and len(a["typed"]) >= 2)
        a["typed"][0], a["typed"][1] = a["typed"][1], a["typed"][0]
        b = next(x for x in arts.values() if x["gen"] and x["id"] != a["id"])
        b["gen"][0]["c"] = b["gen"][0]["c"][::-1]
        vp.write_ndjson(os.path.join(ck.work, "tla", "asts.ndjson"), [a, b])
        r = ck.tlc("AstCheck", constants={"K": 4})
        h = len(r.printed("TYPED")) + len(r.printed("GENERIC"))
        print("SELFTEST %s: declarations swapped / children reversed -> %d report(s)" % ("OK" if h >= 2 else "FAILED", h))
        return 0 if h >= 2 else 2
    decide(ck, arts)
    for a in list(arts.values())[:: max(1, len(arts) // 8)]:
        ck.sample({"text": a["text"], "typed": json.dumps(a["typed"])[:200]})
    ck.assumptions += ["typed tree normal form: concatenations/alternatives flattened, ( ) transparent, trailing | = empty alternative, $NAME expanded (AstCheck!Norm)",
                       "the typed tree has no printer of its own; the round trip uses the harness printer and the real Equal method"]
    return ck.finish({"exhaustive": True, "specs": len(arts)})
