"""Shared machinery of the pattern checks C02 and C10: TLC generates the pattern
space (RegexGen.tla), the Go harness runs the real code and exports the automata,
TLC explores the product with the reference semantics (RegexProduct.tla), and
every disagreement is replayed on the real code before it becomes a verdict."""
import collections
import json
import os
import random

import vp


def generate(ck, maxsize, fams, f14=1):
    r = ck.tlc("RegexGen", constants={"MaxSize": maxsize}, workers=4, count=False, timeout=1200)
    if "GENERATED" not in r.out:
        raise vp.Infra("RegexGen produced nothing:\n" + r.out[-2000:])
    gen = os.path.join(ck.work, "tla", "gen_cases.ndjson")
    # family F14 has 3*10^4 members: a check that wants it takes every f14-th one, starting at the seed (all of them: f14=1)
    rows = open(gen).read().splitlines()
    keep, k = [], 0
    for l in rows:
        if '"fam":"F14"' in l.replace(" ", ""):
            k += 1
            if "F14" not in fams or (k + ck.seed) % f14:
                continue
        keep.append(l)
    open(gen, "w").write("\n".join(keep) + "\n")
    n = len(keep)
    ck.log("generator: %d cases (MaxSize=%d)" % (n, maxsize))
    return n


def random_terms(ck, num, depth, keep=300):
    """Seeded random larger terms: behaviours of the term-builder machine RegexGenSim.tla under tlc -simulate."""
    r = ck.tlc("RegexGenSim", workers=1, simulate="num=%d" % num, extra=["-depth", str(depth)], count=False,
               timeout=600, must_finish=False)
    rows = r.printed("TERM")
    seen = set()
    out = []
    for t in rows:
        k = json.dumps(t, sort_keys=True)
        if k in seen:
            continue
        seen.add(k)
        out.append({"fam": "F7", "term": t["term"], "top": False, "predef": ""})
    # the simulator evaluates the invariant on every successor it generates, not only on the one it
    # picks, so the printed set is large: keep a seeded sample of it
    rnd = random.Random(ck.seed)
    if len(out) > keep:
        out = rnd.sample(out, keep)
    gen = os.path.join(ck.work, "tla", "gen_cases.ndjson")
    with open(gen, "a") as f:
        for c in out:
            f.write(json.dumps(c) + "\n")
    ck.log("simulation generator: %d distinct random terms" % len(out))
    return len(out)


def export(ck, routes, fams):
    outs = ck.run_sharded("regex-export", "tla/gen_cases.ndjson", "tla/cases.ndjson",
                          extra=["-routes", ",".join(routes), "-fams", ",".join(fams)], timeout=1500)
    n = 0
    skipped = 0
    for o in outs:
        for l in o.splitlines():
            if l.startswith("EXPORTED"):
                n = max(n, int(l.split()[1]))
            if l.startswith("SKIPPED"):
                skipped += int(l.split()[1])
    ck.coverage["patterns_skipped_over_budget"] = skipped
    arts = {}
    for a in vp.read_ndjson(os.path.join(ck.work, "tla", "cases.ndjson")):
        arts[a["id"]] = a
    ck.log("harness exported %d pattern artifacts (routes %s)" % (len(arts), ",".join(routes)))
    return arts


def selftest_corrupt(ck, arts):
    """Flip the accepting flag of one state of one recorded automaton: the product must notice."""
    rnd = random.Random(ck.seed)
    ids = sorted(a for a in arts if arts[a]["autos"][0]["acc"])
    victim = arts[rnd.choice(ids)]
    au = victim["autos"][0]
    i = rnd.randrange(len(au["acc"]))
    au["acc"][i] = not au["acc"][i]
    vp.write_ndjson(os.path.join(ck.work, "tla", "cases.ndjson"), [arts[k] for k in arts])
    return victim["id"]


def product(ck, arts, routes, prop, known_family="NUL-EPS"):
    r = ck.tlc("RegexProduct", timeout=3000)
    if not r.ok:
        raise vp.Infra("RegexProduct did not complete:\n" + r.out[-3000:])
    if r.printed("BADPARTITION"):
        raise vp.Infra("alphabet partition rejected by the specification: %s" % r.printed("BADPARTITION")[:3])
    per = collections.defaultdict(list)
    for d in r.printed("DISAGREE"):
        per[d["id"]].append(d)
    builderr = r.printed("BUILDERROR")
    ck.log("product: %d distinct states, %d transitions, %d disagreeing cases, %d build errors" %
           (r.distinct, r.generated, len(per), len(builderr)))
    ck.coverage["traces_validated_against_impl"] += len(arts)

    to_replay = []   # (case, route, word, expected)
    family = []      # (case, route)
    for d in builderr:
        a = arts[d["id"]]
        for i, e in enumerate(d["err"]):
            if e:
                to_replay.append((a, a["autos"][i]["name"], [], None, e))
    for cid, ds in per.items():
        a = arts[cid]
        for i, au in enumerate(a["autos"]):
            bad = [d for d in ds if d["impl"][i] != d["ref"]]
            if not bad:
                continue
            unexplained = [d for d in bad if d["impl"][i] != d["refk"]]
            if unexplained:
                d = min(unexplained, key=lambda x: len(x["w"]))
                to_replay.append((a, au["name"], d["w"], d["ref"], ""))
            else:
                d = min(bad, key=lambda x: len(x["w"]))
                family.append((a, au["name"], d["w"], d["ref"]))

    # confirm on the real code
    confirmed = replay(ck, [(a["pat"], rt, w) for (a, rt, w, exp, e) in to_replay] +
                           [(a["pat"], rt, w) for (a, rt, w, exp) in family])
    nrep = len(to_replay)
    unreproduced = 0
    for k, (a, rt, w, exp, e) in enumerate(to_replay):
        res = confirmed[k]
        if exp is None:  # build error
            if res["err"]:
                ck.violation("pattern %r (%s) cannot be compiled on route %s: %s" % (a["pat"], a["id"], rt, res["err"]),
                             {"property": prop, "kind": "build-error", "pat": a["pat"], "route": rt})
            else:
                unreproduced += 1
        elif res["err"] == "" and res["accepts"] != exp:
            ck.violation("pattern %r route %s: word %r %s by the implementation but the documented meaning says %s" %
                         (a["pat"], rt, word_text(w), "accepted" if res["accepts"] else "rejected",
                          "match" if exp else "no match"),
                         {"property": prop, "kind": "language", "pat": a["pat"], "route": rt, "word": w, "expected": exp})
        else:
            unreproduced += 1
    fam_unlisted = 0
    for k, (a, rt, w, exp) in enumerate(family):
        res = confirmed[nrep + k]
        if res["err"] == "" and res["accepts"] != exp:
            what = "pattern %r route %s: %r %s" % (a["pat"], rt, word_text(w), "accepted" if res["accepts"] else "rejected")
            if not ck.known(known_family, what):
                fam_unlisted += 1
                ck.violation(what + " (explained by the NUL-EPS shape, which is not a listed finding)",
                             {"property": prop, "kind": "language", "pat": a["pat"], "route": rt, "word": w, "expected": exp})
        else:
            unreproduced += 1
    if unreproduced:
        raise vp.Infra("%d counterexample(s) of the product did not reproduce on the real code" % unreproduced)
    return r, per, builderr


def word_text(w):
    return "".join(chr(c) if 32 <= c < 127 else "\\x%02X" % c for c in w)


def replay(ck, items):
    if not items:
        return []
    inp = os.path.join(ck.work, "replay_in.ndjson")
    outp = os.path.join(ck.work, "replay_out.ndjson")
    vp.write_ndjson(inp, [{"pat": p, "route": rt, "word": w} for (p, rt, w) in items])
    ck.run_harness(["regex-replay", "-in", inp, "-out", outp])
    return vp.read_ndjson(outp)


def replay_file(ck, prop, path):
    rp = json.load(open(path))
    res = replay(ck, [(rp["pat"], rp["route"], rp.get("word", []))])[0]
    if rp.get("kind") == "build-error":
        bad = bool(res["err"])
        what = "pattern %r route %s: %s" % (rp["pat"], rp["route"], res["err"] or "compiles")
    else:
        bad = res["err"] == "" and res["accepts"] != rp["expected"]
        what = "pattern %r route %s word %r: accepts=%s expected=%s" % (rp["pat"], rp["route"], word_text(rp["word"]),
                                                                    res["accepts"], rp["expected"])
    ck.log("replay:", what)
    ck.coverage["states"] = 1
    ck.coverage["transitions"] = 1
    ck.coverage["traces_validated_against_impl"] = 1
    ck.sample(what)
    if bad:
        ck.violation(what, rp)
    return ck.finish()
