"""Shared: reference token automaton (EbnfLexRef -> refdfa.json) and stream-level trace validation."""
import collections
import json
import os
import random

import vp


def determinise(ck):
    r = ck.tlc("EbnfLexDet", workers=2, count=False, timeout=600)
    if "DETERMINISED" not in r.out:
        raise vp.Infra("EbnfLexDet failed:\n" + r.out[-2000:])


def gen_texts(ck, maxcore, nsim, keep):
    r = ck.tlc("LexTextGen", constants={"MaxCore": maxcore, "PairSeps": 3 if maxcore <= 2 else 6, "LongStarts": 4 if maxcore <= 2 else 12}, count=False, timeout=1800)
    if not r.ok:
        raise vp.Infra("LexTextGen failed:\n" + r.out[-2000:])
    gen = os.path.join(ck.work, "tla", "gen_texts.ndjson")
    seen = set()
    with open(gen, "w") as f:
        for t in r.printed("TEXT"):
            k = "".join(t["text"])
            if k not in seen:
                seen.add(k)
                f.write(json.dumps({"text": t["text"]}) + "\n")
    if not seen:
        raise vp.Infra("LexTextGen produced no text")
    s = ck.tlc("LexTextSim", workers=1, simulate="num=%d" % nsim, extra=["-depth", "10"], count=False, timeout=600,
               must_finish=False)
    rows = s.printed("TEXT")
    out = []
    for t in rows:
        k = "".join(t["text"])
        if k not in seen:
            seen.add(k)
            out.append(t)
    rnd = random.Random(ck.seed)
    if len(out) > keep:
        out = rnd.sample(out, keep)
    # characters a TLA+ string literal cannot spell: vertical tab, NEL, no-break space (none of them is white space
    # for the documented scanner) at the beginning and at the end of a text
    odd = []
    for base in ("grammar x;", 'a = "b";', "x"):
        for ch in ("\x0b", "\u0085", "\u00a0", "\x0c", "\u2028"):
            odd += [ch + base, base + ch, base + " " + ch, " " + ch + " " + base]
    with open(gen, "a") as f:
        for t in out:
            f.write(json.dumps({"text": t["text"]}) + "\n")
        for t in odd:
            f.write(json.dumps({"text": list(t)}) + "\n")
    n = sum(1 for _ in open(gen))
    ck.log("text generator: %d texts (%d from the simulated builder)" % (n, len(out)))
    return n


def validate_streams(ck, spec="LexStream", file="streams.ndjson"):
    """TLC validates every recorded stream; returns (result, streams by id, mismatches)."""
    streams = {}
    expected_states = 0
    for a in vp.read_ndjson(os.path.join(ck.work, "tla", file)):
        streams[a["id"]] = a
    r = ck.tlc(spec, timeout=3000)
    if not r.ok:
        raise vp.Infra("%s did not complete:\n%s" % (spec, r.out[-3000:]))
    mism = r.printed("MISMATCH")
    ck.coverage["traces_validated_against_impl"] += len(streams)
    return r, streams, mism


def text_of(a):
    return "".join(map(chr, a["cps"]))


def describe(a, d):
    i = d["i"]
    if i < len(a["toks"]):
        t = a["toks"][i]
        got = "token %s %r at %d:%d" % (t["k"], "".join(map(chr, t["lx"])), t["ln"], t["col"])
    elif a["end"] == "eof":
        got = "end of input"
    else:
        got = "error at %d:%d (%s)" % (a["eln"], a["ecol"], a["emsg"][:80])
    if d["k"] == "EOF":
        exp = "end of input"
    elif d["k"] == "ERR":
        exp = "lexical error at %d:%d" % (d["ln"], d["col"])
    else:
        exp = "token %s %r at %d:%d" % (d["k"], "".join(map(chr, d["lx"])), d["ln"], d["col"])
    return exp, got


def is_token1(a, d):
    """known finding TOKEN1: a one-letter TOKEN is reported as a lexical error at its position."""
    return (d["k"] == "TOKEN" and len(d["lx"]) == 1 and d["i"] == len(a["toks"]) and a["end"] == "err"
            and a["eln"] == d["ln"] and a["ecol"] == d["col"])
