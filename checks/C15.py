"""C15 - the same specification and options give byte-identical output and diagnostics."""
import concurrent.futures
import hashlib
import json
import os
import re
import shutil
import subprocess

import vp
import emitcommon as ec

LEVEL = "model_checking"
G = "grammar %s;\n"
ORDER_SENSITIVE = {
    # several diagnostics of one kind: their order must not depend on hash-table iteration
    "undef3": G % "undef" + 'start = AA BB CC DD EE "x";\n',
    "undef-mixed": G % "undefm" + 'AA = "a";\nAA = "b";\nBB = "c";\nBB = "d";\nstart = AA BB CC DD;\n',
    "samevalue2": G % "same" + 'AA = "x";\nBB = "x";\nCC = "y";\nDD = "y";\nEE = "y";\nstart = AA BB CC DD EE;\n',
    # the same kinds of diagnostic for declarations written on ONE line (the semicolon after a token declaration is optional):
    # an order "by line" leaves them tied
    "oneline-same": G % "onel" + 'AA = "x" BB = "x" CC = "x" DD = "y" EE = "y"\nstart = AA BB CC DD EE;\n',
    "oneline-multi": G % "onem" + 'AA = "a" AA = "b" BB = "c" BB = "d" CC = $NOPE DD = $NADA start = AA BB CC DD EE FF;\n',
    "predef-bad": G % "pre" + 'AA = $NOPE;\nBB = $NADA;\nstart = AA BB;\n',
    "dfa-conflicts": G % "conf" + 'AA = /[a-z]+/;\nBB = /[a-m]+/;\nCC = /[0-9]+/;\nDD = /[0-5]+/;\nstart = AA BB CC DD;\n',
    "bad-patterns": G % "badp" + 'AA = /[9-0]/;\nBB = /a{3,1}/;\nCC = /[z-a]/;\nstart = AA BB CC;\n',
    "lalr-conflicts": G % "amb" + 'start = e;\ne = e "+" e | e "*" e | e "-" e | "x";\n',
    "nostart": G % "nost" + 'aa = "x";\nbb = "y";\n',
    "many-accepting": G % "many" + 'ID = /[a-z][a-z0-9]*/;\nNUM = /[0-9]+(\\.[0-9]+)?/;\nstart = {ID | NUM | "if" | "in" | "int" | "i"};\n',
    # terminals whose sort keys are nearly equal (same kind, same length; differing in case, by one character, by an
    # accent, by a digit or an underscore): any ordering of definitions, states or case arms that leaves a tie to
    # hash-table iteration shows up as differing output
    "case-pairs": G % "casep" + 'start = {"e" | "E" | "a" | "A" | "ab" | "AB" | "aB" | "Ab"};\n',
    "same-length": G % "samelen" + 'start = {"+=" | "-=" | "*=" | "/=" | "<=" | ">=" | "==" | "!="};\n',
    "name-pairs": G % "namep" + 'A1 = "p";\nA_1 = "q";\nA_ = "r";\nAA = "s";\nA11 = /t+/;\nA_11 = /u+/;\nstart = {A1 | A_1 | A_ | AA | A11 | A_11};\n',
    "pattern-ties": G % "patt" + 'LO = /[a-m]+/;\nHI = /[n-z]+/;\nUP = /[A-M]+/;\nUQ = /[N-Z]+/;\nstart = {LO | HI | UP | UQ};\n',
    # anonymous sub-expressions: their generated names appear in the derived productions and in conflict reports
    "amb-group": G % "ambgroup" + 'start = e;\ne = e ("+" | "-") e | e ["*" "/"] e | "x";\n',
    "groups": G % "groups" + 'start = {item ","} [item ";"];\nitem = ("a" "b") | {{"c" "d"}} | ["e" "f"];\n',
    "dup-handles": G % "duph" + 'start = e;\ne = e "+" e | "x";\n@left "+";\n@right "+";\n@none "x" "+";\n',
}
DEP_ORDER = {
    "undef-nonterms": G % "unt" + 'start = aa bb cc dd;\n',        # diagnostics produced while the dependency verifies the grammar
}
ANSI = re.compile(r"\x1b\[[0-9;]*m")


def normalise(text):
    text = ANSI.sub("", text)
    return "".join(ch for ch in text if ord(ch) < 128)          # the decorative emoji are chosen at random


def fresh_run(args):
    work, binary, sid, text, run = args
    d = os.path.join(work, "c15", "%s-%d" % (sid, run))
    os.makedirs(d)
    open(os.path.join(d, "g.ebnf"), "w").write(text)
    p = subprocess.run([binary, "g.ebnf"], cwd=d, stdout=subprocess.PIPE, stderr=subprocess.PIPE, text=True, timeout=120)
    parts = ["exit %d" % p.returncode, normalise(p.stdout), normalise(p.stderr)]
    for dp, dns, fns in sorted(os.walk(d)):
        for f in sorted(fns):
            if f != "g.ebnf":
                parts.append("%s %s" % (os.path.relpath(os.path.join(dp, f), d), hashlib.sha1(open(os.path.join(dp, f), "rb").read()).hexdigest()))
    shutil.rmtree(d, True)
    detail = "\n".join(parts)
    return {"base": sid, "variant": "fresh process %d" % run, "hash": hashlib.sha1(detail.encode()).hexdigest()[:16], "detail": detail[-600:]}


def run(ck):
    quick = ck.tier == "quick"
    ck.stage_specs()
    k = 8 if quick else 30
    binary = os.path.join(ck.work, "bin", "emerge")
    os.makedirs(os.path.dirname(binary), exist_ok=True)
    p = subprocess.run(["go", "build", "-o", binary, "./cmd/emerge"], cwd=vp.REPO, env=ec.go_env(), stdout=subprocess.PIPE, stderr=subprocess.STDOUT, text=True)
    if p.returncode != 0:
        raise vp.Infra("emerge does not build:\n" + p.stdout[-2000:])
    specs = dict(ec.POOL)
    specs.update(ORDER_SENSITIVE)
    specs.update(DEP_ORDER)
    if ck.args.replay:
        rp = json.load(open(ck.args.replay))
        specs = {rp["base"]: rp["text"]}
    with concurrent.futures.ThreadPoolExecutor(max_workers=12) as ex:
        recs = list(ex.map(fresh_run, [(ck.work, binary, sid, t, r) for sid, t in specs.items() for r in range(k)]))
    # vacuity guard: these specifications exist to exercise the ordering of generated output, so they must be accepted
    for sid in ("case-pairs", "same-length", "name-pairs", "pattern-ties", "many-accepting"):
        if sid in specs and not any(r["base"] == sid and r["detail"].startswith("exit 0") and "lexer.go" in r["detail"] for r in recs):
            raise vp.Infra("pool specification %s is not accepted, the ordering it probes is not exercised" % sid)
    items = [{"id": sid, "kind": "spec", "text": t} for sid, t in specs.items()]
    vp.write_ndjson(os.path.join(ck.work, "items.ndjson"), items)
    os.makedirs(os.path.join(ck.work, "rg"), exist_ok=True)
    ck.run_harness(["repeat-gen", "-in", "items.ndjson", "-out", "repeat.ndjson", "-root", os.path.join(ck.work, "rg"), "-k", str(k)])
    inproc = vp.read_ndjson(os.path.join(ck.work, "repeat.ndjson"))
    for r in inproc:
        r["base"] += " (in process)"
    recs += inproc
    first = {}
    for r in recs:
        first.setdefault(r["base"], r["hash"])
        r["ref"] = first[r["base"]]
        r["posok"] = True
    if ck.args.selftest:
        recs = recs[:40]
        recs[5]["hash"] = "f" * 16
    vp.write_ndjson(os.path.join(ck.work, "tla", "layouts.ndjson"), recs)
    r = ck.tlc("History", timeout=1200)
    if not r.ok:
        raise vp.Infra("History did not complete:\n" + r.out[-2000:])
    diffs = r.printed("DIFFERS")
    if ck.args.selftest:
        print("SELFTEST %s: one run digest corrupted -> %d report(s)" % ("OK" if len(diffs) == 1 else "FAILED", len(diffs)))
        return 0 if len(diffs) == 1 else 2
    ck.coverage["traces_validated_against_impl"] += len(recs)
    byk = {(x["base"], x["variant"]): x for x in recs}
    seen = set()
    for d in diffs:
        if d["base"] in seen:
            continue
        seen.add(d["base"])
        x = byk[(d["base"], d["variant"])]
        ref = next(y for y in recs if y["base"] == d["base"])
        sid = d["base"].replace(" (in process)", "")
        what = "spec %s: %s differs from %s:\n--- %s\n+++ %s" % (d["base"], d["variant"], ref["variant"], ref["detail"][-250:], x["detail"][-250:])
        if sid in DEP_ORDER and ck.known("DEP-ORDER", "spec %s: run-to-run differences" % sid):
            continue
        ck.violation(what, {"property": "C15", "kind": "nondeterministic", "base": sid, "text": specs[sid]})
    for x in recs[:: max(1, len(recs) // 8)]:
        ck.sample({"spec": x["base"], "run": x["variant"], "digest": x["hash"]})
    ck.assumptions += ["%d fresh processes and %d in-process repeats per specification; a 2-way order dependence escapes with probability 2^-%d" % (k, k, k - 1),
                       "ANSI colour codes and non-ASCII characters (the random decorative emoji) are removed before comparing diagnostics"]
    return ck.finish({"exhaustive": False, "specs": len(specs), "runs_per_spec": 2 * k, "runs": len(recs)})
