"""C12 - recorded precedence levels are exactly the directives, in order, with their handles."""
import json
import os

import vp

LEVEL = "model_checking"


def export(ck):
    ck.run_sharded("ebnf-export", "tla/gen_specs.ndjson", "tla/specs.ndjson", timeout=900)
    return {a["id"]: a for a in vp.read_ndjson(os.path.join(ck.work, "tla", "specs.ndjson"))}


def decide(ck, arts):
    r = ck.tlc("PrecCheck", timeout=3000)
    if not r.ok:
        raise vp.Infra("PrecCheck did not complete:\n" + r.out[-3000:])
    ck.coverage["traces_validated_against_impl"] += len(arts)
    rej = r.printed("REJECTED")
    other = []
    for d in rej:
        a = arts[d["id"]]
        if "precedence level" in a["err"]:
            # the directives are well-formed (no handle is listed twice): the recorded levels must be wrong
            ck.violation("spec %r is rejected because of its precedence levels although no handle is listed twice: %s" %
                         (a["text"].replace("\n", " "), a["err"].replace("\n", " ")[:200]),
                         {"property": "C12", "kind": "levels-rejected", "text": a["text"], "decls": a["decls"]})
        else:
            other.append(a)
    if other:
        raise vp.Infra("%d generated well-formed specifications were rejected (C07's business), e.g. %r: %s" %
                       (len(other), other[0]["text"], other[0]["err"][:200]))
    # "each such production is one of the grammar's own productions": a directive never adds to the grammar. The derived grammar
    # of every specification is compared with the one of the same declarations WITHOUT the directives (number of productions and
    # of non-terminals; the synthesised names may be numbered differently when handles are read first)
    def shape(a):
        ps = set(json.dumps(p, sort_keys=True) for p in a["prods"])
        return len(ps), len(set(p["h"] for p in a["prods"]))
    def canon(t):
        """a right-hand side with every alternation flattened and its alternatives as a set"""
        if t["k"] == "alt":
            alts, todo = [], [t]
            while todo:
                x = todo.pop()
                todo.extend(x["c"]) if x["k"] == "alt" else alts.append(canon(x))
            return ("alt", tuple(sorted(set(alts))))
        return (t["k"], t["n"], tuple(canon(c) for c in t["c"]))

    def alts(rhs):
        c = canon(rhs[0]) if rhs else ("eps",)
        return set(c[1]) if c[0] == "alt" else {c}

    def own(a):
        """every rule handle is written with alternatives of the rule it names (in any order)"""
        rules = {x["name"]: alts(x["rhs"]) for x in a["decls"] if x["k"] == "rule"}
        return all(alts(h["rhs"]) <= rules.get(h["name"], set()) for x in a["decls"] if x["k"] == "dir" for h in x["hs"] if h["k"] == "r")
    plain = [a for a in arts.values() if a["ok"] and not any(x["k"] == "dir" for x in a["decls"])]
    if plain:
        want = shape(plain[0])
        for a in arts.values():
            if a["ok"] and own(a) and sorted(json.dumps(x, sort_keys=True) for x in a["decls"] if x["k"] != "dir") == \
                    sorted(json.dumps(x, sort_keys=True) for x in plain[0]["decls"]) and shape(a) != want:
                ck.violation("spec %r: the directives changed the grammar: %d productions / %d non-terminals without them, %d / %d with them "
                             "(a rule handle contributed a production that is not one of the grammar's own)" %
                             ((a["text"].replace("\n", " "),) + want + shape(a)),
                             {"property": "C12", "kind": "grammar-changed", "text": a["text"], "decls": a["decls"]})
    for d in r.printed("LEVELS"):
        a = arts[d["id"]]
        dirs = [x for x in a["decls"] if x["k"] == "dir"]
        what = ("spec %r: %d directive(s), %d level(s) recorded" % (a["text"].replace("\n", " "), len(dirs), len(a["precs"]))
                if d["lvl"] == 0 else
                "spec %r: level %d recorded as %s does not match the directive" %
                (a["text"].replace("\n", " "), d["lvl"], json.dumps(a["precs"][d["lvl"] - 1])))
        ck.violation(what, {"property": "C12", "kind": "levels", "text": a["text"], "decls": a["decls"], "level": d["lvl"]})
    return r


def run(ck):
    quick = ck.tier == "quick"
    if ck.args.replay:
        rp = json.load(open(ck.args.replay))
        ck.stage_specs()
        vp.write_ndjson(os.path.join(ck.work, "tla", "gen_specs.ndjson"), [{"fam": "R", "decls": rp["decls"]},
                                                                                {"fam": "R0", "decls": [x for x in rp["decls"] if x["k"] != "dir"]}])
        arts = export(ck)
        decide(ck, arts)
        ck.sample({"text": rp["text"], "violations": len(ck.violations)})
        return ck.finish()
    consts = {"K": 2, "MaxLevels": 3 if quick else 4}
    g = ck.tlc("PrecGen", constants=consts, workers=4, count=False, timeout=1200)
    if "GENERATED" not in g.out:
        raise vp.Infra("PrecGen failed:\n" + g.out[-2000:])
    if not quick:
        # every sequence of up to three directives, and a seeded sample of the 15 120 sequences of four (all of them, with the
        # grammar as it is now, keep PrecCheck busy for more than its hour)
        gp = os.path.join(ck.work, "tla", "gen_specs.ndjson")
        rows = vp.read_ndjson(gp)
        small = [x for x in rows if sum(1 for d in x["decls"] if d["k"] == "dir") <= 3]
        big = [x for x in rows if sum(1 for d in x["decls"] if d["k"] == "dir") > 3]
        import random
        random.Random(ck.seed).shuffle(big)
        vp.write_ndjson(gp, small + big[:4000])
    arts = export(ck)
    ck.log("%d specifications exported" % len(arts))
    if ck.args.selftest:
        victim = next(a for a in arts.values() if a["ok"] and len(a["precs"]) >= 2)
        victim["precs"][0], victim["precs"][1] = victim["precs"][1], victim["precs"][0]
        vp.write_ndjson(os.path.join(ck.work, "tla", "specs.ndjson"), list(arts.values()))
        r = ck.tlc("PrecCheck")
        hit = [d for d in r.printed("LEVELS") if d["id"] == victim["id"]]
        print("SELFTEST %s: two recorded levels swapped -> %d report(s)" % ("OK" if hit else "FAILED", len(hit)))
        return 0 if hit else 2
    r = decide(ck, arts)
    for a in list(arts.values())[:: max(1, len(arts) // 8)]:
        ck.sample({"text": a["text"], "precs": a["precs"]})
    ck.assumptions += ["rule-handle productions are compared by language (strings up to length 2 over the derived grammar) and by count, not by synthesised names",
                       "two handles for the same head in one level are compared as a union"]
    return ck.finish({"exhaustive": True, "specs": len(arts), "max_levels": consts["MaxLevels"], "directive_pool": 10,
                      "placements": ["before", "after", "interleaved"]})
