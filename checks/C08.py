"""C08 - the emitted lexer is valid stand-alone Go encoding exactly the token automaton."""
import concurrent.futures
import json
import os

import vp
import emitcommon as ec

LEVEL = "translation_validation"
PROBES = [0, 1, 9, 10, 13, 32, 34, 39, 92, 127, 128, 233, 0x20AC, 0x1F600, 0x10FFFF, -1]


def collect(ck, arts):
    recs = []

    def one(a):
        if a["err"]:
            return {"id": a["id"], "generr": a["err"]}
        vet_ok, vet_out, build_ok, build_out, drv = ec.prepare(ck, a)
        rec = {"id": a["id"], "vetok": vet_ok, "buildok": build_ok, "vetout": vet_out[-600:], "buildout": build_out[-600:],
               "nstates": a["nstates"], "trans": a["trans"], "owner": a["owner"], "terms": a["terms"],
               "probes": sorted(set(a["syms"]) | set(PROBES)), "adv": [], "eval": []}
        if build_ok:
            resp = ec.drive(drv, [{"op": "table", "id": a["id"], "states": a["nstates"], "runes": rec["probes"]}])[a["id"]]
            rec["adv"], rec["eval"] = resp["adv"], resp["eval"]
        return rec
    with concurrent.futures.ThreadPoolExecutor(max_workers=8) as ex:
        recs = list(ex.map(one, arts.values()))
    return recs


def decide(ck, recs):
    bad_gen = [r for r in recs if "generr" in r]
    if bad_gen:
        raise vp.Infra("pool specification rejected by emerge: %s: %s" % (bad_gen[0]["id"], bad_gen[0]["generr"][:300]))
    vp.write_ndjson(os.path.join(ck.work, "tla", "emits.ndjson"), recs)
    r = ck.tlc("EmitCheck", workers=8, timeout=1800)
    if not r.ok:
        raise vp.Infra("EmitCheck did not complete:\n" + r.out[-3000:])
    by = {x["id"]: x for x in recs}
    for d in r.printed("NOTVALIDGO"):
        x = by[d["id"]]
        ck.violation("spec %s: the emitted package is not valid Go: %s" % (d["id"], (x["vetout"] or x["buildout"])[:300].replace("\n", " | ")),
                     {"property": "C08", "kind": "not-valid-go", "spec": ec.POOL.get(d["id"], "")})
    for d in r.printed("EMITDIFF"):
        ck.violation("spec %s: emitted tables differ from the token automaton: advanceDFA at %s, evalDFA at states %s" % (d["id"], d["adv"][:5], d["eval"][:5]),
                     {"property": "C08", "kind": "tables-differ", "spec": ec.POOL.get(d["id"], "")})
    return r


def run(ck):
    ck.stage_specs()
    names = None
    if ck.args.replay:
        rp = json.load(open(ck.args.replay))
        names = [n for n, t in ec.POOL.items() if t == rp.get("spec")] or None
    arts = ec.emit_all(ck, names)
    recs = collect(ck, arts)
    ck.log("%d packages emitted, %d pass go vet, %d compile" % (len(recs), sum(1 for r in recs if r.get("vetok")), sum(1 for r in recs if r.get("buildok"))))
    if ck.args.selftest:
        v = next(r for r in recs if r.get("buildok") and len(r["adv"]) > 3)
        v["adv"][2][3] = 99
        v["eval"][1] = "BOGUS"
        decide_recs = [v]
        vp.write_ndjson(os.path.join(ck.work, "tla", "emits.ndjson"), decide_recs)
        r = ck.tlc("EmitCheck", workers=2)
        h = len(r.printed("EMITDIFF"))
        print("SELFTEST %s: one transition and one accepting entry corrupted -> %d report(s)" % ("OK" if h else "FAILED", h))
        return 0 if h else 2
    r = decide(ck, recs)
    cells = sum(len(x["adv"]) * len(x["probes"]) for x in recs if x.get("buildok"))
    for x in recs[:8]:
        ck.sample({"spec": x["id"], "states": x["nstates"], "symbols_and_probes": len(x["probes"]), "vet": x["vetok"], "build": x["buildok"]})
    ck.assumptions += ["'valid Go' is decided by go vet / go build of the emitted files alone in an empty module (observation); the extensional identity by TLC",
                       "the automaton is the one Spec.DFA() returns in the same process that ran golang.Generate"]
    return ck.finish({"programs": len(recs), "disagreements_checked": cells, "exhaustive": True,
                      "cells_compared": cells, "pool": sorted(ec.POOL)})
