"""Shared by C04, C11, C18, C20: the LALR(1) table of the documented grammar (built by TLC), the probed
implementation table, and generated specifications."""
import json
import os

import vp

SAMPLE_LEXEME = {"IDENT": "x", "TOKEN": "TK", "STRING": "\"s\"", "REGEX": "/r/", "PREDEF": "$ID"}


def doc_table(ck):
    r = ck.tlc("EbnfDocTable", workers=2, count=False, timeout=600)
    if "BUILT" not in r.out:
        raise vp.Infra("EbnfDocTable failed:\n" + r.out[-2000:])
    return r


def impl_table(ck):
    p = ck.run_harness(["ebnf-table", "-out", "tla/impltable.json", "-src", os.path.join(vp.REPO, "internal/ebnf/parser/parsing_table.go")])
    return json.load(open(os.path.join(ck.work, "tla", "impltable.json"))), p.stdout.strip()


def gen_specs(ck, consts, drop=("F3",)):
    g = ck.tlc("EbnfGen", constants=consts, workers=4, count=False, timeout=900)
    if "GENERATED" not in g.out:
        raise vp.Infra("EbnfGen failed:\n" + g.out[-2000:])
    path = os.path.join(ck.work, "tla", "gen_specs.ndjson")
    rows = [r for r in vp.read_ndjson(path) if r["fam"] not in drop]
    vp.write_ndjson(path, rows)
    return len(rows)


def text_of_tokens(kinds):
    return " ".join(SAMPLE_LEXEME.get(k, k) for k in kinds) + "\n"
