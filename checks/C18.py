"""C18 - parse callbacks fire in derivation order with the right values; callback errors abort the parse."""
import json
import os

import vp
import lrcommon as lc

LEVEL = "model_checking"


def validate(ck, traces):
    vp.write_ndjson(os.path.join(ck.work, "tla", "ptraces.ndjson"), traces)
    r = ck.tlc("ParseTrace", constants={"K": 3}, timeout=3000)
    if not r.ok:
        raise vp.Infra("ParseTrace did not complete:\n" + r.out[-3000:])
    by = {t["id"]: t for t in traces}
    bad = r.printed("TRACEBAD")
    for d in bad:
        t = by[d["id"]]
        if t["failat"] >= 0:
            what = ("spec %r, %s callbacks, failure injected at callback %d: %d events recorded, ok=%s, error wraps the injected one=%s (%s)" %
                    (vp.short_blanks(t["text"]), t["mode"], t["failat"], len(t["events"]), t["ok"], t["wraps"], t["err"][:80]))
        else:
            ev = t["events"][d["at"]] if d["at"] < len(t["events"]) else "end of trace"
            what = ("spec %r, %s callbacks: event %d (%s) is not the step of the documented derivation (expected action %s, next token %d)" %
                    (vp.short_blanks(t["text"]), t["mode"], d["at"], json.dumps(ev)[:200], d["expect"], d["tk"] + 1))
        ck.violation(what, {"property": "C18", "kind": "callbacks", "text": t["text"], "decls": t["decls"], "mode": t["mode"], "failat": t["failat"]})
    ck.coverage["traces_validated_against_impl"] += len(traces)
    # acceptance: every trace must have been consumed to the end ("done") or reported
    return r, bad


def run(ck):
    quick = ck.tier == "quick"
    ck.stage_specs()
    lc.doc_table(ck)
    lc.impl_table(ck)
    if ck.args.replay:
        rp = json.load(open(ck.args.replay))
        vp.write_ndjson(os.path.join(ck.work, "tla", "gen_specs.ndjson"), [{"fam": "R", "decls": rp["decls"]}])
        ck.run_harness(["parse-trace", "-in", "tla/gen_specs.ndjson", "-out", "tla/ptraces.ndjson", "-inject", "-1"])
        validate(ck, vp.read_ndjson(os.path.join(ck.work, "tla", "ptraces.ndjson")))
        ck.sample({"replayed": rp["text"]})
        return ck.finish()
    n = lc.gen_specs(ck, {"K": 3, "MaxSize": 4 if quick else 5, "ShareSize": 1 if quick else 2}, drop=())
    ck.run_sharded("parse-trace", "tla/gen_specs.ndjson", "tla/ptraces.ndjson", extra=["-inject", "8" if quick else "30"], timeout=1800)
    traces = vp.read_ndjson(os.path.join(ck.work, "tla", "ptraces.ndjson"))
    cap = 30000
    if len(traces) > cap:       # TLC validates about 25 traces a second and core; keep the thorough tier within half an hour
        import random
        traces = random.Random(ck.seed).sample(traces, cap)
        vp.write_ndjson(os.path.join(ck.work, "tla", "ptraces.ndjson"), traces)
        ck.assumptions.append("a seeded sample of %d of the recorded traces is validated" % cap)
    ninj = sum(1 for t in traces if t["failat"] >= 0)
    ck.log("%d specifications, %d traces (%d with an injected callback failure)" % (n, len(traces), ninj))
    if ck.args.selftest:
        t = next(t for t in traces if t["mode"] == "eval" and t["failat"] == -1 and len(t["events"]) > 6)
        j = next(j for j in range(len(t["events"]) - 1) if t["events"][j]["i"] != t["events"][j + 1]["i"])
        t["events"][j], t["events"][j + 1] = t["events"][j + 1], t["events"][j]
        u = next(t for t in traces if t["mode"] == "parse" and t["failat"] == -1 and len(t["events"]) > 6)
        next(e for e in u["events"][2:] if e["e"] == "tok")["col"] += 1
        r, bad = validate(ck, [t, u])
        print("SELFTEST %s: two events swapped / one column shifted -> %d of 2 traces rejected" % ("OK" if len(bad) == 2 else "FAILED", len(bad)))
        return 0 if len(bad) == 2 else 2
    r, bad = validate(ck, traces)
    # every trace not reported must have reached "done": the state graph has no other way to stop
    ck.log("%d states, %d traces rejected" % (r.distinct, len(bad)))
    for t in traces[:: max(1, len(traces) // 8)]:
        ck.sample({"id": t["id"], "mode": t["mode"], "failat": t["failat"], "events": len(t["events"]),
                   "first_events": [(e["e"], e["i"] if e["e"] != "tok" else e["k"]) for e in t["events"][:6]]})
    ck.assumptions += ["the expected derivation is the run of the standard shift-reduce driver on the LALR(1) table TLC built from the documented grammar (doctable.json)",
                       "the token list and positions are those of the harness printer"]
    return ck.finish({"exhaustive": True, "specs": n, "traces": len(traces), "traces_with_injected_failure": ninj})
