"""C13 - what emerge derives depends only on the token sequence, not on layout, padding or file size."""
import json
import os

import vp
import lrcommon as lc

LEVEL = "model_checking"


def refine(ck, n, variant, maxrunes, kinds):
    cfg = "ReaderRefine_%s_%d.cfg" % (variant, n)
    with open(os.path.join(ck.stage_specs(), cfg), "w") as f:
        f.write('SPECIFICATION Spec\nCONSTANT N = %d\nCONSTANT Variant = "%s"\nCONSTANT MaxRunes = %d\nCONSTANT Kinds = %s\n'
                'INVARIANT Refines\nVIEW View\nCHECK_DEADLOCK FALSE\n' % (n, variant, maxrunes, kinds))
    return ck.tlc("ReaderRefine", cfg=cfg, timeout=2400, must_finish=False, count=(variant == "emit"))


def run(ck):
    quick = ck.tier == "quick"
    ck.stage_specs()
    if ck.args.replay:
        # one base specification and one layout variant: printed again, parsed by the real pipeline, judged by History.tla
        rp = json.load(open(ck.args.replay))
        if "decls" not in rp or "variant" not in rp:
            raise vp.Infra("C13 replay: this replay file carries no specification (reader-trace and model cases are re-derived by the full check)")
        tdir = os.path.join(ck.work, "tla")
        vp.write_ndjson(os.path.join(tdir, "one.ndjson"), [{"fam": rp.get("fam", "R"), "decls": rp["decls"]}])
        ck.run_harness(["layout-sweep", "-in", "tla/one.ndjson", "-out", "tla/layouts.ndjson", "-step", "1", "-only", rp["variant"]])
        recs = vp.read_ndjson(os.path.join(tdir, "layouts.ndjson"))
        r = ck.tlc("History", timeout=600)
        if not r.ok:
            raise vp.Infra("History did not complete:\n" + r.out[-2000:])
        for tag, what in (("DIFFERS", "the result differs from the canonical layout of the same token sequence"),
                          ("POSITION", "a reported position is not the position of the token in the text")):
            for d in r.printed(tag):
                ck.violation("%s, layout %s: %s" % (d["base"], d["variant"], what), dict(rp))
        ck.coverage["traces_validated_against_impl"] += len(recs)
        ck.sample({"replayed": rp["variant"], "records": len(recs)})
        return ck.finish()

    # ---- A. design level: the two-buffer reader refines the reader contract (exhaustive, small constants) ----
    for n, mr, kinds in ((2, 5 if quick else 6, "{97, 10, 233}"), (3, 5 if quick else 7, "{97, 10, 233, 8364}"), (4, 5 if quick else 7, "{97, 10, 233, 8364}")):
        r = refine(ck, n, "emit", mr, kinds)
        if "Invariant Refines is violated" in r.out:
            ck.violation("design level: the repaired two-buffer reader (templates/input.go.tmpl as modelled in TwoBuffer.tla, N=%d) does not refine the reader contract" % n,
                         {"property": "C13", "kind": "model", "n": n})
        elif not r.ok:
            raise vp.Infra("ReaderRefine(emit, N=%d) did not complete:\n%s" % (n, r.out[-2000:]))
    d = refine(ck, 2, "dep", 3, "{97, 10}")
    dep_broken = "Invariant Refines is violated" in d.out
    ck.notes.append("model of the dependency's reader (TwoBuffer Variant=dep): contract violated=%s (known: latched EOF / second reload after "
                    "retraction); emerge's lexer sizes the buffer to the whole text so that no boundary or EOF retraction matters" % dep_broken)

    # ---- B + C: layouts and paddings on the real pipeline; reader traces of the real lexer ----
    lc.gen_specs(ck, {"K": 3, "MaxSize": 3, "ShareSize": 1}, drop=("F3",))
    path = os.path.join(ck.work, "tla", "gen_specs.ndjson")
    rows = vp.read_ndjson(path)
    nf = (3, 1, 1) if quick else (6, 4, 2)
    full = [r for r in rows if r["fam"] == "F6"][1:1 + nf[0]] + [r for r in rows if r["fam"] == "F4"][:nf[1]] + [r for r in rows if r["fam"] == "F2"][:nf[2]]
    rest = [r for r in rows if r["fam"] in ("F6", "F4") and r not in full] + [r for r in rows if r["fam"] == "F1"][::25]
    # an ill-formed and a syntactically wrong specification: their diagnostics must move with the text as well
    bad = [{"fam": "BAD", "decls": full[0]["decls"][:1] + [{"k": "rule", "name": "start", "dk": "", "val": "", "assoc": "", "hs": [],
                                                          "rhs": [{"k": "t", "n": "UNDEF", "s": False, "c": []}]}]}]
    vp.write_ndjson(os.path.join(ck.work, "tla", "full.ndjson"), full + bad)
    vp.write_ndjson(os.path.join(ck.work, "tla", "rest.ndjson"), rest)
    ck.run_sharded("layout-sweep", "tla/full.ndjson", "tla/layouts_full.ndjson", extra=["-step", "1" if not quick else "5", "-traces", "tla/rt_full.ndjson"], timeout=2400)
    ck.run_sharded("layout-sweep", "tla/rest.ndjson", "tla/layouts_rest.ndjson", extra=["-step", "512"], timeout=1200)
    # run_sharded concatenates only the main output: collect the trace shards
    traces = []
    tdir = os.path.join(ck.work, "tla")
    for f in sorted(os.listdir(tdir)):
        if f.startswith("rt_full.ndjson"):
            traces += vp.read_ndjson(os.path.join(tdir, f))
    recs_rest = vp.read_ndjson(os.path.join(tdir, "layouts_rest.ndjson"))
    for x in recs_rest:
        x["base"] = "rest:" + x["base"]          # the harness numbers the specifications of each input file from 1
    recs = vp.read_ndjson(os.path.join(tdir, "layouts_full.ndjson")) + recs_rest
    decls_of = {}
    for pre, lst in (("", full + bad), ("rest:", rest)):
        for n, sp in enumerate(lst, 1):
            decls_of["%s%s-%d" % (pre, sp["fam"], n)] = sp
    ck.log("%d layout/padding variants of %d token sequences parsed by the real spec.Parse; %d reader traces recorded" %
           (len(recs), len(full) + len(rest) + 1, len(traces)))
    if ck.args.selftest:
        recs = recs[:50]
        recs[7]["hash"] = "0" * 16
        recs[9]["posok"] = False
        vp.write_ndjson(os.path.join(tdir, "layouts.ndjson"), recs)
        r = ck.tlc("History")
        h = len(r.printed("DIFFERS")) + len(r.printed("POSITION"))
        print("SELFTEST %s: one digest and one position flag corrupted -> %d report(s)" % ("OK" if h == 2 else "FAILED", h))
        return 0 if h == 2 else 2
    vp.write_ndjson(os.path.join(tdir, "layouts.ndjson"), recs)
    r = ck.tlc("History", timeout=3000)
    if not r.ok:
        raise vp.Infra("History did not complete:\n" + r.out[-2000:])
    ck.coverage["traces_validated_against_impl"] += len(recs)
    byk = {(x["base"], x["variant"]): x for x in recs}
    for tag, what in (("DIFFERS", "the result differs from the canonical layout of the same token sequence"),
                      ("POSITION", "a reported position is not the position of the token in the text")):
        for d in r.printed(tag)[:40]:
            x = byk[(d["base"], d["variant"])]
            ck.violation("%s, layout %s (%d bytes): %s %s" % (d["base"], d["variant"], x["len"], what, x["note"]),
                         {"property": "C13", "kind": tag, "base": d["base"], "variant": d["variant"],
                          "fam": decls_of[d["base"].split("/semi=")[0]]["fam"], "decls": decls_of[d["base"].split("/semi=")[0]]["decls"]})
    # reader traces of the real lexer against the reader contract
    vp.write_ndjson(os.path.join(tdir, "rtraces.ndjson"), traces)
    r2 = ck.tlc("ReaderTrace", timeout=2400)
    if not r2.ok:
        raise vp.Infra("ReaderTrace did not complete:\n" + r2.out[-2000:])
    ck.coverage["traces_validated_against_impl"] += len(traces)
    for d in r2.printed("RMISMATCH")[:20]:
        ck.violation("real lexer, %s: reader operation #%d does not return what the reader contract prescribes (%s)" % (d["id"], d["at"] + 1, d["expect"]),
                     {"property": "C13", "kind": "reader-trace", "id": d["id"]})
    for x in recs[:: max(1, len(recs) // 8)]:
        ck.sample({"base": x["base"], "variant": x["variant"], "bytes": x["len"], "accepted": x["ok"]})
    ck.assumptions += ["layout variants: 7 separators, 4 end-of-declaration texts, with/without optional semicolons, with/without final newline",
                       "padding sweep: spaces, newlines and one comment of EVERY length 0..8256 before the text for 6 (quick) / 13 (thorough) token sequences, every 512th and the critical windows for the others, interleaved paddings that move every token across both 4096-byte boundaries",
                       "the order of diagnostics is compared as a set (C15 owns the order); NUL never occurs"]
    return ck.finish({"exhaustive": True, "layout_variants": len(recs), "reader_traces": len(traces), "dependency_reader_model_violates_contract": dep_broken})
