"""C05 - the EBNF scanner yields exactly the documented tokens, lexemes and positions."""
import json
import os

import vp
import lexcommon as lc

LEVEL = "model_checking"


def table_level(ck):
    g = ck.tlc("EbnfLexGen", workers=2, count=False, timeout=300)
    if "GENERATED" not in g.out:
        raise vp.Infra("EbnfLexGen failed:\n" + g.out[-2000:])
    p = ck.run_harness(["lexer-table", "-in", "tla/gen_lexref.ndjson", "-out", "tla/scanner.ndjson"], timeout=900)
    ck.log(p.stdout.strip())
    art = vp.read_ndjson(os.path.join(ck.work, "tla", "scanner.ndjson"))[0]
    return art, p.stdout.strip()


def decide_table(ck, art):
    r = ck.tlc("ScannerProduct", timeout=1200)
    if not r.ok:
        raise vp.Infra("ScannerProduct did not complete:\n" + r.out[-3000:])
    names = [d["name"] for d in art["defs"]]
    n = 0
    for tag in ("DISAGREE", "LIVENESS", "CONFLICTSTATE"):
        for d in r.printed(tag):
            n += 1
            w = "".join(map(chr, d["w"]))
            exp = "no token" if d["win"] == 0 else ("conflict" if d["win"] == -1 else names[d["win"] - 1])
            got = ("not accepting" if not d["acc"] else (names[d["owner"] - 1] if d["owner"] > 0 else "owner %d" % d["owner"]))
            what = "scanner table, after reading %r: documented token table gives %s, advanceDFA/evalDFA give %s (%s)" % (w, exp, got, tag)
            rp = {"property": "C05", "kind": "table", "word": d["w"], "expected": exp}
            if exp == "TOKEN" and len(d["w"]) == 1 and not d["acc"]:
                if ck.known("TOKEN1", what):
                    continue
            ck.violation(what, rp)
    ck.coverage["traces_validated_against_impl"] += 1
    return r


def stream_level(ck, quick):
    lc.determinise(ck)
    lc.gen_texts(ck, 2 if quick else 3, 8 if quick else 200, 3000 if quick else 40000)
    ck.run_sharded("lexer-stream", "tla/gen_texts.ndjson", "tla/streams.ndjson", timeout=1200)
    r, streams, mism = lc.validate_streams(ck)
    ck.log("stream level: %d texts, %d states, %d mismatches" % (len(streams), r.distinct, len(mism)))
    for d in mism:
        a = streams[d["id"]]
        exp, got = lc.describe(a, d)
        what = "text %r: token #%d must be %s, the lexer yields %s" % (lc.text_of(a), d["i"] + 1, exp, got)
        if lc.is_token1(a, d) and ck.known("TOKEN1", what):
            continue
        ck.violation(what, {"property": "C05", "kind": "stream", "text": lc.text_of(a)})
    # acceptance: every trace is consumed completely (one state per token + initial + final), except the
    # mismatching ones, which stop in a "bad" state right where the mismatch is
    bad = {d["id"]: d["i"] for d in mism}
    expect = sum((bad[k] + 2) if k in bad else (len(a["toks"]) + 2) for k, a in streams.items())
    if r.distinct != expect:
        raise vp.Infra("trace acceptance count is off: TLC found %d states, the recorded traces need %d" % (r.distinct, expect))
    return streams


def run(ck):
    quick = ck.tier == "quick"
    if ck.args.replay:
        rp = json.load(open(ck.args.replay))
        ck.stage_specs()
        if rp.get("kind") == "stream":
            lc.determinise(ck)
            vp.write_ndjson(os.path.join(ck.work, "tla", "gen_texts.ndjson"), [{"text": list(rp["text"])}])
            ck.run_harness(["lexer-stream", "-in", "tla/gen_texts.ndjson", "-out", "tla/streams.ndjson"])
            r, streams, mism = lc.validate_streams(ck)
            for d in mism:
                a = streams[d["id"]]
                exp, got = lc.describe(a, d)
                ck.violation("text %r: token #%d must be %s, the lexer yields %s" % (lc.text_of(a), d["i"] + 1, exp, got), rp)
            ck.sample({"text": rp["text"], "mismatches": len(mism)})
        else:
            art, _ = table_level(ck)
            decide_table(ck, art)
            ck.sample({"table": "replayed"})
        return ck.finish()

    art, tab = table_level(ck)
    if ck.args.selftest:
        # corrupt one transition of the recorded table: the product must notice
        art["auto"]["d"][39][5] = 0 if art["auto"]["d"][39][5] else 41
        for j in range(len(art["classes"])):
            if art["auto"]["d"][16][j] == 18:
                art["auto"]["d"][16][j] = 0
        vp.write_ndjson(os.path.join(ck.work, "tla", "scanner.ndjson"), [art])
        r = ck.tlc("ScannerProduct")
        hit = len(r.printed("DISAGREE")) + len(r.printed("LIVENESS"))
        print("SELFTEST %s: corrupted table -> %d report(s)" % ("OK" if hit > 1 else "FAILED", hit))
        return 0 if hit > 1 else 2
    r1 = decide_table(ck, art)
    ck.log("table level: %s; product %d states / %d transitions" % (tab, r1.distinct, r1.generated))
    streams = stream_level(ck, quick)
    ck.sample({"level": "table", "classes": len(art["classes"]), "states": 64,
               "class_examples": [{"rep": c["rep"], "ranges": c["m"][:3]} for c in art["classes"][:5]]})
    for a in list(streams.values())[:: max(1, len(streams) // 8)]:
        ck.sample({"text": lc.text_of(a), "tokens": [t["k"] for t in a["toks"]], "end": a["end"]})
    ck.assumptions += [
        "token table transcribed in spec/EbnfLexRef.tla; a REGEX lexeme is non-empty and does not start with '*'; comment bodies range over tab+printable ASCII",
        "a line ends with LF; offsets are counted in characters (texts are ASCII)",
        "how runs of blanks are chunked into WS/EOL tokens is unobservable (skipped) and not compared",
    ]
    return ck.finish({"exhaustive": True, "code_points_tabulated": 1112063, "scanner_states": 64,
                      "transition_evaluations": 64 * 1112063, "classes": len(art["classes"]), "texts": len(streams)})
