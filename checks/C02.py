"""C02 - token patterns compile to automata accepting exactly the pattern's language."""
import vp
import regexcommon as rc

LEVEL = "model_checking"
ROUTES = ["pipe", "nfa0", "min", "elim"]
FAMS = ["F1", "F2", "F3", "F4", "F5", "F6", "F7", "F8", "F9", "F10", "F12", "F13"]


def run(ck):
    if ck.args.replay:
        return rc.replay_file(ck, "C02", ck.args.replay)
    maxsize = 3 if ck.tier == "quick" else 4
    rc.generate(ck, maxsize, FAMS)
    rc.random_terms(ck, 20 if ck.tier == "quick" else 200, 12, keep=300 if ck.tier == "quick" else 4000)
    arts = rc.export(ck, ROUTES, FAMS)
    if ck.args.selftest:
        victim = rc.selftest_corrupt(ck, arts)
        r = ck.tlc("RegexProduct")
        hit = [d for d in r.printed("DISAGREE") if d["id"] == victim and d["impl"][0] != d["refk"]]
        print("SELFTEST %s: corrupted artifact %s -> %d disagreement(s) reported by TLC" %
              ("OK" if hit else "FAILED", victim, len(hit)))
        return 0 if hit else 2
    r, per, berr = rc.product(ck, arts, ROUTES, "C02")
    fams = {}
    for a in arts.values():
        fams[a["fam"]] = fams.get(a["fam"], 0) + 1
    for a in list(arts.values())[:: max(1, len(arts) // 10)]:
        ck.sample({"id": a["id"], "pattern": a["pat"], "classes": len(a["classes"]),
                   "states": {x["name"]: len(x["acc"]) for x in a["autos"]}})
    ck.assumptions += [
        "string domain: ASCII 1..127 plus code points named in the pattern (NUL excluded, per the property)",
        "class meanings: RE2/POSIX conventions transcribed in spec/CharClasses.tla",
        "the harness printer (term -> pattern text) and the alphabet partition are trusted; the partition is re-checked by TLC (Uniform, Covers)",
        "anchors ^ $, \\p{..} classes and . / negations over non-ASCII are unspecified and not generated",
    ]
    return ck.finish({
        "exhaustive": True,
        "patterns": len(arts), "families": fams, "routes": ROUTES, "max_tree_size": maxsize,
        "disagreeing_patterns": len(per), "build_errors": len(berr),
        "rule": "one TLC behaviour tree per pattern: full product of reference derivatives x each exported automaton over the class alphabet",
    })
