"""C07 - a specification is rejected iff it is ill-formed; every terminal gets exactly one definition."""
import json
import os

import vp

LEVEL = "model_checking"
TAGS = {"FALSEREJECT": "well-formed specification rejected", "FALSEACCEPT": "ill-formed specification accepted",
        "NOTNAMED": "no present defect is named by the diagnostics", "ABSENTNAMED": "the diagnostics name a problem that is not present",
        "DEFS": "terminal definitions differ from the declared ones"}


def export(ck):
    ck.run_sharded("ebnf-export", "tla/gen_specs.ndjson", "tla/specs.ndjson", timeout=900)
    return {a["id"]: a for a in vp.read_ndjson(os.path.join(ck.work, "tla", "specs.ndjson"))}


def decide(ck, arts):
    r = ck.tlc("SpecCheck", timeout=3000)
    if not r.ok:
        raise vp.Infra("SpecCheck did not complete:\n" + r.out[-3000:])
    ck.coverage["traces_validated_against_impl"] += len(arts)
    n = 0
    for tag, what in TAGS.items():
        for d in r.printed(tag):
            a = arts[d["id"]]
            n += 1
            ck.violation("%s: %r -> %s; defects by the specification: %s; diagnostics: %s" %
                         (what, a["text"].replace("\n", " "), ("accepted" if a["ok"] and not a["dfaerr"] else "rejected"),
                          d["defects"], d["diags"]),
                         {"property": "C07", "kind": tag, "text": a["text"], "decls": a["decls"]})
    return r, n


def run(ck):
    quick = ck.tier == "quick"
    if ck.args.replay:
        rp = json.load(open(ck.args.replay))
        ck.stage_specs()
        vp.write_ndjson(os.path.join(ck.work, "tla", "gen_specs.ndjson"), [{"fam": "R", "decls": rp["decls"]}])
        arts = export(ck)
        decide(ck, arts)
        ck.sample({"text": rp["text"], "violations": len(ck.violations)})
        return ck.finish()
    consts = {"K": 3, "MaxDecls": 3 if quick else 4, "MaxExtra": 2}
    g = ck.tlc("SpecPoolGen", constants=consts, workers=4, count=False, timeout=2400)
    if "GENERATED" not in g.out:
        raise vp.Infra("SpecPoolGen failed:\n" + g.out[-2000:])
    arts = export(ck)
    acc = sum(1 for a in arts.values() if a["ok"] and not a["dfaerr"])
    ck.log("%d specifications: %d accepted, %d rejected" % (len(arts), acc, len(arts) - acc))
    if ck.args.selftest:
        victim = next(a for a in arts.values() if a["ok"] and not a["dfaerr"])
        victim["ok"] = False
        victim["err"] = "no definition for terminal \"ID\""
        victim["diags"] = [["undef-token", "ID"]]
        vp.write_ndjson(os.path.join(ck.work, "tla", "specs.ndjson"), list(arts.values()))
        r = ck.tlc("SpecCheck")
        hit = [d for d in r.printed("FALSEREJECT") if d["id"] == victim["id"]]
        print("SELFTEST %s: accepted record turned into a rejection -> %d report(s)" % ("OK" if hit else "FAILED", len(hit)))
        return 0 if hit else 2
    r, n = decide(ck, arts)
    for a in list(arts.values())[:: max(1, len(arts) // 10)]:
        ck.sample({"text": a["text"], "accepted": bool(a["ok"] and not a["dfaerr"]), "diags": a["diags"]})
    ck.assumptions += ["rejected = spec.Parse error or Spec.DFA() error (patterns are validated there)",
                       "only diagnostics of known message shapes are interpreted (harness/ebnf.go diagShapes); unknown shapes are ignored",
                       "a string token and a pattern token with the same source text are not generated (unspecified)"]
    return ck.finish({"exhaustive": True, "specs": len(arts), "accepted": acc, "rejected": len(arts) - acc,
                      "max_decls_all_orders": consts["MaxDecls"], "max_extras": consts["MaxExtra"]})
