"""C20 - lexical and syntax errors are reported at the first offending token."""
import json
import os

import vp
import lrcommon as lc
import lexcommon as lx

LEVEL = "model_checking"


def syntax_part(ck, specs_file):
    if specs_file:
        ck.run_sharded("syntax-mutants", specs_file, "tla/mutants.ndjson", timeout=1800,
                       extra=["-long-specs", "1" if ck.tier == "quick" else "3", "-long-sizes", "1" if ck.tier == "quick" else "2"])
    muts = {m["id"]: m for m in vp.read_ndjson(os.path.join(ck.work, "tla", "mutants.ndjson"))}
    r = ck.tlc("SyntaxErr", timeout=3000)
    if not r.ok:
        raise vp.Infra("SyntaxErr did not complete:\n" + r.out[-3000:])
    ck.coverage["traces_validated_against_impl"] += len(muts)
    for tag in ("FALSEREJECT", "WRONGPOS"):
        for d in r.printed(tag):
            m = muts[d["id"]]
            fe = d["fe"]
            where = ("accepted by the documented grammar" if fe == 0 else
                     "first offending token #%d %s at %s" % (fe, m["kinds"][fe - 1], m["pos"][fe - 1]) if fe <= len(m["kinds"]) else "ends too early")
            ck.violation("%s (%s): %s; parser: %s | ast: %s | spec: %s" %
                         (m["text"].replace("\n", " ")[:160], m["mut"], where,
                          m["p"]["msg"][:70] or "ok", m["a"]["msg"][:70] or "ok", m["s"]["msg"][:70] or "ok"),
                         {"property": "C20", "kind": "syntax", "text": m["text"], "kinds": m["kinds"], "pos": m["pos"], "lens": m["lens"]})
    return r, len(muts)


def lexical_part(ck, specs_file):
    lx.determinise(ck)
    if specs_file:
        ck.run_sharded("lexical-mutants", specs_file, "tla/fronts.ndjson", timeout=1800)
    recs = {a["id"]: a for a in vp.read_ndjson(os.path.join(ck.work, "tla", "fronts.ndjson"))}
    r = ck.tlc("FrontEndCheck", timeout=3000)
    if not r.ok:
        raise vp.Infra("FrontEndCheck did not complete:\n" + r.out[-3000:])
    ck.coverage["traces_validated_against_impl"] += len(recs)
    for d in r.printed("FRONT"):
        a = recs[d["id"]]
        text = "".join(map(chr, a["cps"]))
        exp = d["expect"]
        what = "text %r: the documented front end gives %s, emerge reports %s" % (text[:160], exp, a["s"]["msg"][:100] or "accepted")
        # known finding TOKEN1: emerge reports a lexical error at a one-letter TOKEN that the reference scans as a token
        if a["s"]["haspos"] and not a["s"]["ok"]:
            lines = text.split("\n")
            ln, col = a["s"]["ln"], a["s"]["col"]
            if 0 < ln <= len(lines) and 0 < col <= len(lines[ln - 1]):
                rest = lines[ln - 1][col - 1:]
                if rest[:1].isupper() and not (rest[1:2].isupper() or rest[1:2].isdigit() or rest[1:2] == "_") and "lexical error" in a["s"]["msg"]:
                    if ck.known("TOKEN1", what):
                        continue
        ck.violation(what, {"property": "C20", "kind": "front-end", "text": text})
    return r, len(recs)


def run(ck):
    quick = ck.tier == "quick"
    ck.stage_specs()
    lc.doc_table(ck)
    if ck.args.replay:
        rp = json.load(open(ck.args.replay))
        # the one recorded text is run through the real entry points again and judged by the same TLC check
        if rp.get("kind") == "front-end":
            ck.run_harness(["replay-one", "-in", os.path.abspath(ck.args.replay), "-out", "tla/fronts.ndjson"])
            lexical_part(ck, None)
        else:
            ck.run_harness(["replay-one", "-in", os.path.abspath(ck.args.replay), "-out", "tla/mutants.ndjson"])
            syntax_part(ck, None)
        ck.sample({"replayed": rp["text"]})
        return ck.finish()
    lc.gen_specs(ck, {"K": 3, "MaxSize": 3, "ShareSize": 1}, drop=("F3",))
    path = os.path.join(ck.work, "tla", "gen_specs.ndjson")
    rows = vp.read_ndjson(path)
    base = [r for r in rows if r["fam"] in ("F6", "F4")] + [r for r in rows if r["fam"] == "F1"][:: (12 if quick else 3)] \
        + [r for r in rows if r["fam"] == "F2"][:: (150 if quick else 25)] + [r for r in rows if r["fam"] == "F7"][:: (4 if quick else 1)]
    vp.write_ndjson(path, base)
    if ck.args.selftest:
        ck.run_harness(["syntax-mutants", "-in", "tla/gen_specs.ndjson", "-out", "tla/mutants.ndjson", "-shard", "1/40"])
        muts = vp.read_ndjson(os.path.join(ck.work, "tla", "mutants.ndjson"))
        v = next(m for m in muts if not m["p"]["ok"] and m["p"]["haspos"])
        v["p"]["col"] += 1
        vp.write_ndjson(os.path.join(ck.work, "tla", "mutants.ndjson"), [v])
        r = ck.tlc("SyntaxErr")
        h = len(r.printed("WRONGPOS"))
        print("SELFTEST %s: reported column shifted by one -> %d report(s)" % ("OK" if h else "FAILED", h))
        return 0 if h else 2
    r1, nm = syntax_part(ck, "tla/gen_specs.ndjson")
    ck.log("syntax: %d base specifications, %d single-token mutants" % (len(base), nm))
    # four gluing variants of 31 stray texts at every position of every base specification: every other one in the quick tier; the
    # thorough tier has 128 base specifications and takes every third (all of them: 3.5*10^5 texts, beyond FrontEndCheck's hour)
    vp.write_ndjson(os.path.join(ck.work, "tla", "gen_specs_lex.ndjson"), base[::2] if quick else base[::3])
    r2, ns = lexical_part(ck, "tla/gen_specs_lex.ndjson")
    ck.log("lexical: %d texts with a stray/unterminated element" % ns)
    muts = vp.read_ndjson(os.path.join(ck.work, "tla", "mutants.ndjson"))
    for m in muts[:: max(1, len(muts) // 6)]:
        ck.sample({"mutation": m["mut"], "text": m["text"], "parser": m["p"]["msg"] or "accepted"})
    ck.assumptions += ["first offending token = first token with no action in the LALR(1) table of the documented grammar (equal to the recursive-descent error point by C04)",
                       "a premature end must be rejected with no position or a position that is not a token of the text",
                       "lexical reference: spec/EbnfScan.tla; known finding TOKEN1 applies"]
    return ck.finish({"exhaustive": True, "base_specs": len(base), "syntax_mutants": nm, "lexical_mutants": ns})
