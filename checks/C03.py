"""C03 - combined scanner automaton: exact union, right winner, conflicts iff real."""
import collections
import json
import os

import vp

LEVEL = "model_checking"


def export(ck, infile="tla/gen_scanner.ndjson"):
    ck.run_sharded("scanner-export", infile, "tla/scanner.ndjson", timeout=1200)
    arts = {}
    for a in vp.read_ndjson(os.path.join(ck.work, "tla", "scanner.ndjson")):
        arts[a["id"]] = a
    return arts


def decide(ck, arts, prop="C03"):
    r = ck.tlc("ScannerProduct", timeout=2400)
    if not r.ok:
        raise vp.Infra("ScannerProduct did not complete:\n" + r.out[-3000:])
    perr = [arts[d["id"]] for d in r.printed("PARSEERROR")]
    # the generator never puts two definitions with the same value into one set: "multiple definitions with the same value" on
    # such a set is a definition conflict reported where no text is matched by two definitions (the property's own words)
    dup = [a for a in perr if "multiple definitions with the same value" in a["perr"]]
    for a in dup:
        ck.violation("spurious definition conflict: the definitions %s have pairwise different values, emerge reports: %s" %
                     ([x["name"] for x in a["defs"]], a["perr"].replace("\n", " ")[:300]),
                     {"property": prop, "kind": "spurious-duplicate", "spec": a["text"], "defs": a["defs"]})
    if len(perr) > len(dup):
        bad = [a for a in perr if a not in dup][:3]
        raise vp.Infra("generated specification rejected by spec.Parse (C07's business, not C03): %r" %
                       [(b["text"], b["perr"]) for b in bad])
    ck.coverage["traces_validated_against_impl"] += len(arts)
    conf_states = collections.defaultdict(list)
    for d in r.printed("CONFLICTSTATE"):
        conf_states[d["id"]].append(d)
    nviol = 0
    # exact union / winner, decided in every product state; the artifact came from the real Spec.DFA(), and the
    # word is re-run on a freshly built automaton before it is reported
    per = collections.defaultdict(list)
    for d in r.printed("DISAGREE"):
        per[d["id"]].append(d)
    for cid, ds in per.items():
        a = arts[cid]
        d = min(ds, key=lambda x: len(x["w"]))
        names = [x["name"] for x in a["defs"]]
        exp = "no terminal" if d["win"] == 0 else ("conflict" if d["win"] == -1 else names[d["win"] - 1])
        got = "not accepted" if not d["acc"] else ("owner #%d" % d["owner"] if d["owner"] <= 0 else names[d["owner"] - 1])
        ck.violation("definitions %s: text %r must give %s, the scanner automaton gives %s" %
                     (names, "".join(map(chr, d["w"])), exp, got),
                     {"property": prop, "kind": "winner", "spec": a["text"], "word": d["w"], "expected": exp, "defs": a["defs"]})
        nviol += 1
    for d in r.printed("BUILDERROR"):
        a = arts[d["id"]]
        ck.violation("definitions %s: automaton construction failed: %s" % ([x["name"] for x in a["defs"]], a["auto"]["err"]),
                     {"property": prop, "kind": "build-error", "spec": a["text"], "defs": a["defs"]})
    reported = set(i for i, a in arts.items() if a["conflict"])
    for cid in sorted(reported - set(conf_states)):
        a = arts[cid]
        ck.violation("spurious conflict: no text is matched by two patterns without a literal, but emerge reports: %s" %
                     a["auto"]["err"].replace("\n", " "), {"property": prop, "kind": "spurious-conflict", "spec": a["text"], "defs": a["defs"]})
    for cid in sorted(set(conf_states) - reported):
        a = arts[cid]
        if cid in per:
            continue
        d = min(conf_states[cid], key=lambda x: len(x["w"]))
        ck.violation("silently resolved conflict: text %r is matched by definitions %s with no literal to break the tie" %
                     ("".join(map(chr, d["w"])), [a["defs"][i - 1]["name"] for i in d["m"]]),
                     {"property": prop, "kind": "missed-conflict", "spec": a["text"], "word": d["w"], "defs": a["defs"]})
    return r, reported, conf_states


def run(ck):
    if ck.args.replay:
        rp = json.load(open(ck.args.replay))
        ck.stage_specs()
        vp.write_ndjson(os.path.join(ck.work, "tla", "gen_scanner.ndjson"), [{"defs": rp["defs"]}])
        arts = export(ck)
        decide(ck, arts)
        ck.sample({"spec": rp["spec"], "violations": len(ck.violations)})
        return ck.finish()
    quick = ck.tier == "quick"
    consts = {"MaxDefs": 3, "PoolSize": 35} if quick else {"MaxDefs": 4, "PoolSize": 35}
    g = ck.tlc("ScannerGen", constants=consts, workers=4, count=False, timeout=600)
    if "GENERATED" not in g.out:
        raise vp.Infra("ScannerGen produced nothing:\n" + g.out[-2000:])
    arts = export(ck)
    ck.log("%d definition sets exported from the real Spec.DFA()" % len(arts))
    if ck.args.selftest:
        # swap the owner of one accepting state: the product must notice
        for a in arts.values():
            if a["auto"]["err"] == "" and len(a["defs"]) >= 2 and any(o > 0 for o in a["auto"]["owner"]):
                k = next(i for i, o in enumerate(a["auto"]["owner"]) if o > 0)
                a["auto"]["owner"][k] = a["auto"]["owner"][k] % len(a["defs"]) + 1
                victim = a["id"]
                break
        vp.write_ndjson(os.path.join(ck.work, "tla", "scanner.ndjson"), list(arts.values()))
        r = ck.tlc("ScannerProduct")
        hit = [d for d in r.printed("DISAGREE") if d["id"] == victim]
        print("SELFTEST %s: corrupted owner in %s -> %d disagreement(s)" % ("OK" if hit else "FAILED", victim, len(hit)))
        return 0 if hit else 2
    r, reported, conf = decide(ck, arts)
    ck.log("product: %d states, %d transitions; conflicts reported %d, reachable %d" %
           (r.distinct, r.generated, len(reported), len(conf)))
    for a in list(arts.values())[:: max(1, len(arts) // 8)]:
        ck.sample({"id": a["id"], "defs": [d["name"] for d in a["defs"]], "states": len(a["auto"]["acc"]),
                   "conflict_reported": a["conflict"]})
    ck.assumptions += ["definition pool of spec/ScannerGen.tla; every subset up to the size bound",
                       "string domain ASCII 1..127; the pool avoids the sets affected by the known finding NUL-EPS (owned by C02)"]
    return ck.finish({"exhaustive": True, "definition_sets": len(arts), "pool": consts["PoolSize"], "max_defs": consts["MaxDefs"],
                      "conflicts_reported": len(reported), "conflict_states_reachable_cases": len(conf)})
