"""X01 (extra, not one of the listed properties) - the stack emitted into every generated package (stack.go) is a stack.

ArrayStack.tla models templates/stack.go.tmpl field for field (linked blocks, stale slots, block release) next to an
abstract sequence; TLC checks the refinement and every result exhaustively for small block sizes, then generates
behaviours (with the abstract results) that are replayed on the COMPILED emitted stack of a generated package."""
import json
import os
import random

import vp
import emitcommon as ec

LEVEL = "model_checking"


def run(ck):
    quick = ck.tier == "quick"
    ck.stage_specs()
    states = 0
    for n in (1, 2, 3) if quick else (1, 2, 3, 4, 5):
        r = ck.tlc("ArrayStack", constants={"NodeSize": n, "Vals": "{1, 2}", "MaxLen": 7 if quick else 9, "MaxOps": 0, "Record": "FALSE"}, timeout=1200)
        if not r.ok:
            ck.violation("ArrayStack.tla (block size %d): the model of the emitted stack does not refine a stack:\n%s" % (n, r.out[-1500:]),
                         {"property": "X01", "kind": "model", "n": n})
        states += r.distinct or 0
    arts = ec.emit_all(ck, ["kw"])
    a = arts["kw"]
    if a["err"]:
        raise vp.Infra("pool specification rejected: " + a["err"][:200])
    vet_ok, vet_out, build_ok, build_out, drv = ec.prepare(ck, a)
    if not build_ok:
        raise vp.Infra("emitted package does not compile: " + build_out[:400])
    traces = []
    for n in (1, 2, 3, 4, 7):
        s = ck.tlc("ArrayStack", cfg="ArrayStackSim.cfg", constants={"NodeSize": n, "Vals": "{1, 2, 3}", "MaxLen": 12, "MaxOps": 40, "Record": "TRUE"},
                   workers=1, simulate="num=%d" % (40 if quick else 600), extra=["-depth", "42"], count=False, timeout=900, must_finish=False)
        traces += s.printed("STACKTRACE")
    rnd = random.Random(ck.seed)
    if quick and len(traces) > 1500:
        traces = rnd.sample(traces, 1500)
    if not traces:
        raise vp.Infra("ArrayStack simulation produced no behaviours")
    if ck.args.selftest:
        traces = traces[:20]
        for o in traces[3]["ops"]:
            if o["op"] == "pop" and o["ok"]:
                o["r"] += 1
                break
    reqs = [{"op": "stack", "id": "s%d" % i, "n": t["n"], "sops": [{"op": o["op"], "v": o["v"]} for o in t["ops"]]} for i, t in enumerate(traces)]
    resp = ec.drive(drv, reqs)
    bad = 0
    for i, t in enumerate(traces):
        got = resp["s%d" % i]
        if got.get("crash") or got.get("fail"):
            ck.violation("emitted stack (block size %d) fails on %s: %s" % (t["n"], [(o["op"], o["v"]) for o in t["ops"]], got.get("fail", "no answer")),
                         {"property": "X01", "kind": "crash", "trace": t})
            bad += 1
            continue
        for j, (o, g) in enumerate(zip(t["ops"], got["res"])):
            exp_ok = o["ok"]
            ok = {"pop": g["ok"] == exp_ok and (not exp_ok or g["r"] == o["r"]), "peek": g["ok"] == exp_ok and (not exp_ok or g["r"] == o["r"]),
                  "contains": g["ok"] == exp_ok, "isempty": g["ok"] == exp_ok, "size": g["r"] == o["r"], "push": True}[o["op"]]
            if not ok:
                ck.violation("emitted stack (block size %d): operation #%d %s(%d) returned %s, a stack gives r=%s ok=%s; operations %s" %
                             (t["n"], j + 1, o["op"], o["v"], json.dumps(g), o["r"], o["ok"], [(x["op"], x["v"]) for x in t["ops"][: j + 1]]),
                             {"property": "X01", "kind": "result", "trace": t, "at": j})
                bad += 1
                break
    if ck.args.selftest:
        print("SELFTEST %s: one expected pop result corrupted -> %d report(s)" % ("OK" if bad == 1 else "FAILED", bad))
        return 0 if bad == 1 else 2
    ck.coverage["states"] += states
    ck.coverage["traces_validated_against_impl"] += len(traces)
    for t in traces[:: max(1, len(traces) // 5)]:
        ck.sample({"block_size": t["n"], "ops": "".join(o["op"][0] for o in t["ops"])})
    ck.assumptions += ["values are ints; block sizes 1-5 exhaustively in the model (depth bounded by stack length), 1,2,3,4,7 on the compiled code"]
    return ck.finish({"exhaustive": True, "model_states": states, "behaviours_replayed": len(traces)})
