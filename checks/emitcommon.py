"""Shared by C08 and C19: emit packages with the real generator, compile them with an export file and a driver."""
import json
import os
import shutil
import subprocess

import vp

G = "grammar %s;\n"
# pool of token specifications (name -> specification text)
POOL = {
    "kw": G % "kw" + 'ID = $ID;\nNUM = /[0-9]+/;\nstart = {"if" | "in" | "int" | ID | NUM | "+" | "++" | "(" | ")"};\n',
    "wsnamed": G % "wsnamed" + 'WS = $WS;\nID = /[a-z]+/;\nstart = {ID | WS};\n',
    "eolcomment": G % "eolcomment" + 'EOL = /[\\x0A\\x0D]+/;\nCOMMENT = $COMMENT;\nID = /[a-z][a-z0-9_]*/;\nstart = {ID | EOL | COMMENT | "=" | ";"};\n',
    "nows": G % "nows" + 'AB = /(a|b)+/;\nstart = {AB | "c"};\n',
    "quotes": G % "quotes" + 'QUO = "\'";\nDQ = "\\"";\nBSL = "\\\\";\nstart = {QUO | DQ | BSL | "x"};\n',
    # inline literals: the terminal is NAMED by the text between the quotes, escapes included
    "inlineesc": G % "inlineesc" + 'start = {"\\"" | "\\\\" | "\'" | "a\\"b" | "`" | "\\\\n" | "%d" | "{{" };\n',
    # U+FFFD is a character like any other; surrogates and out-of-range values have no character literal
    "replacement": G % "replacement" + 'RC = /[\\xFFFC-\\xFFFD]+/;\nTXT = /"[a-z\\xFFFD]*"/;\nstart = {RC | TXT};\n',
    "surrogates": G % "surrogates" + 'SG = /[\\xD7FE-\\xD802]+/;\nNG = /a\\xFFFFFFFF/;\nID = /[a-z]+/;\nstart = {SG | NG | ID};\n',
    # several symbol lists that differ only in code points without a character literal (one surrogate each, an out-of-range value)
    "surrogates2": G % "surrogates2" + 'TA = /a[\\xD800]/;\nTB = /b[\\xD801]/;\nTC = /c[\\xDFFF]x/;\nTD = /d\\x110000/;\nstart = {TA | TB | TC | TD};\n',
    # terminals owning exactly 16 / 32 / 17 accepting states (line-wrapped state lists)
    "sixteen": G % "sixteen" + 'AS = /a{1,16}/;\nCS = /c{1,17}/;\nstart = {AS | CS};\n',
    "thirtytwo": G % "thirtytwo" + 'BS = /b{1,32}/;\nstart = {BS | "x"};\n',
    # exactly 16 / 32 / 48 symbols lead from one state to the same next state (line-wrapped case lists)
    "wrap16": G % "wrap16" + 'HEX = /h[0-9A-F]+/;\nSP = /s[\\x20-\\x3F]/;\nLW = /w[a-z0-9A-L]/;\nstart = {HEX | SP | LW};\n',
    "nonascii": G % "nonascii" + 'EE = /\\x00E9+/;\nEUR = /\\x20AC/;\nID = /[a-z]+/;\nstart = {EE | EUR | ID};\n',
    "control": G % "control" + 'CTL = /[\\x01-\\x08]/;\nBEL = /\\x07\\x07/;\nID = /[a-z]+/;\nstart = {CTL | BEL | ID};\n',
    "nostate": G % "nostate" + 'IFP = /i[f]/;\nID = /[a-z]+x/;\nstart = {"if" | IFP | ID};\n',
    "prefix": G % "prefix" + 'start = {"<" | "<=" | "<<" | "<<=" | "=" | "==" };\n',
    "number": G % "number" + 'NUM = $NUMBER;\nSTR = $STRING;\nstart = {NUM | STR | "-" | "."};\n',
    "blanktok": G % "blanktok" + 'SP = / +x/;\nID = /[a-z]+/;\nstart = {SP | ID};\n',
    "single": G % "single" + 'start = "a";\n',
    "letters": G % "letters" + 'LL = $LETTER;\nDD = $DIGIT;\nstart = {LL | DD};\n',
    "nested": G % "nested" + 'HEX = /0x[0-9A-Fa-f]+/;\nDEC = /[0-9]+/;\nFLT = /[0-9]+\\.[0-9]+/;\nstart = {HEX | DEC | FLT | "."};\n',
    "commentonly": G % "commentonly" + 'COMMENT = /#[a-z ]*/;\nWD = /[a-z]+/;\nstart = {WD | COMMENT};\n',
    "tabs": G % "tabs" + 'TAB = /\\x09/;\nID = /[a-z]+/;\nstart = {TAB | ID};\n',
    "longkw": G % "longkw" + 'ID = /[a-z_]+/;\nstart = {"function" | "fun" | "func" | ID | "{" | "}"};\n',
    "ops": G % "ops" + 'start = {"+" | "-" | "*" | "/" | "%" | "&&" | "||" | "!" | "!=" | "?" | ":" };\n',
    "dollar": G % "dollar" + 'VAR = /\\$[a-z]+/;\nAT = "@";\nstart = {VAR | AT | "$"};\n',
    "nullable": G % "nullable" + 'NUM = /[0-9]*/;\nID = /[a-z]+/;\nstart = {NUM | ID | "+"};\n',
    "nullable2": G % "nullabletwo" + 'OPT = /a?/;\nstart = {OPT "b"};\n',
    "mixedws": G % "mixedws" + 'WS = /[ \\x09]+/;\nNL = /\\x0A/;\nWD = /[a-z]+/;\nstart = {WD | WS | NL};\n',
}


def emit_all(ck, names=None):
    """Runs the real generator for every pool specification; returns artifacts by id."""
    root = os.path.join(ck.work, "emit")
    os.makedirs(root, exist_ok=True)
    cases = [{"id": n, "text": t} for n, t in POOL.items() if names is None or n in names]
    vp.write_ndjson(os.path.join(ck.work, "emit_in.ndjson"), cases)
    ck.run_harness(["emit-export", "-in", "emit_in.ndjson", "-out", "emit_out.ndjson", "-root", root])
    return {a["id"]: a for a in vp.read_ndjson(os.path.join(ck.work, "emit_out.ndjson"))}


def go_env():
    env = dict(os.environ, GOFLAGS="-mod=mod", GOPROXY="off")
    env.pop("GOTOOLCHAIN", None)
    return env


def prepare(ck, art):
    """go vet on the pristine emitted package (std only), then adds the export file and builds the driver.
    Returns (vet_ok, vet_out, build_ok, build_out, driver path)."""
    pkgdir = art["dir"]
    mod = os.path.dirname(pkgdir)
    with open(os.path.join(mod, "go.mod"), "w") as f:
        f.write("module vmod\n\ngo 1.23\n")
    env = go_env()
    p = subprocess.run(["go", "vet", "./" + art["package"]], cwd=mod, env=env, stdout=subprocess.PIPE, stderr=subprocess.STDOUT, text=True)
    vet_out = "\n".join(l for l in p.stdout.splitlines() if "conda" not in l)
    vet_ok = p.returncode == 0
    tmpl = os.path.join(vp.VERIF, "emitdriver")
    open(os.path.join(pkgdir, "zz_verif.go"), "w").write(open(os.path.join(tmpl, "zz_verif.go.txt")).read().replace("PKGNAME", art["package"]))
    open(os.path.join(mod, "main.go"), "w").write(open(os.path.join(tmpl, "main.go.txt")).read().replace("PKGNAME", art["package"]))
    drv = os.path.join(mod, "driver")
    p = subprocess.run(["go", "build", "-o", drv, "."], cwd=mod, env=env, stdout=subprocess.PIPE, stderr=subprocess.STDOUT, text=True)
    build_out = "\n".join(l for l in p.stdout.splitlines() if "conda" not in l)
    return vet_ok, vet_out, p.returncode == 0 and os.path.exists(drv), build_out, drv


def _limits():
    import resource
    resource.setrlimit(resource.RLIMIT_AS, (4 << 30, 4 << 30))


def _run(drv, requests, timeout, watchdog=None):
    """returns the responses the driver managed to give before it ended (all of them normally)"""
    inp = "".join(json.dumps(r) + "\n" for r in requests)
    env = dict(os.environ, VERIF_WATCHDOG=watchdog) if watchdog else None
    try:
        p = subprocess.run([drv], input=inp, stdout=subprocess.PIPE, stderr=subprocess.PIPE, text=True, timeout=timeout, preexec_fn=_limits, env=env)
        stdout = p.stdout
    except subprocess.TimeoutExpired as e:
        stdout = e.stdout.decode() if isinstance(e.stdout, bytes) else (e.stdout or "")
    out = {}
    for l in stdout.splitlines():
        if l.strip():
            try:
                d = json.loads(l)
            except ValueError:
                continue
            out[d["id"]] = d
    return out


def crashed(req):
    """what a request that kills the emitted code (hang, runaway allocation, fatal error) is recorded as"""
    if req["op"] == "scan":
        return {"id": req["id"], "stream": {"toks": [], "end": "crash", "eln": 0, "ecol": 0, "emsg": "the emitted code hung or crashed"}}
    if req["op"] == "reader":
        return {"id": req["id"], "res": [], "fail": "the emitted code hung or crashed"}
    return {"id": req["id"], "adv": [], "eval": [], "crash": True}


def drive(drv, requests, timeout=300, max_crashes=25):
    """Sends request dicts to a compiled driver; returns responses by id.  The driver gives up on a request that does
    not return within 4 s (and is killed if it allocates without bound); that request is recorded as a crash of its
    case and the driver is restarted for the remaining ones."""
    res = {}
    todo = list(requests)
    crashes = 0
    while todo:
        out = _run(drv, todo, timeout)
        res.update(out)
        rest = [r for r in todo if r["id"] not in out]
        if not rest:
            break
        # the request the driver died on is tried once more, alone and with a long watchdog: a busy machine is not a hang
        again = _run(drv, [rest[0]], 120, watchdog="60s")
        if rest[0]["id"] in again:
            res.update(again)
            todo = rest[1:]
            continue
        c = crashed(rest[0])
        res[c["id"]] = c
        crashes += 1
        todo = rest[1:]
        if crashes >= max_crashes:
            for r in todo:          # enough evidence; the remaining cases are recorded as not run
                c = crashed(r)
                c["notrun"] = True
                res[c["id"]] = c
            break
    return res


def auto_record(art):
    """delta/owner tables of emerge's automaton in the shape GenStream.tla reads."""
    n = art["nstates"]
    delta = [dict() for _ in range(n)]
    for s, sym, nx in art["trans"]:
        delta[s][str(sym)] = nx
    owner = [""] * n
    for s, t in art["owner"]:
        owner[int(s)] = t
    # TLC needs records, an empty JSON object is an empty record/function: keep a dummy key so that DOMAIN works uniformly
    for d in delta:
        d["-"] = -1
    return {"id": art["id"], "delta": delta, "owner": owner}
