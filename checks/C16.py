"""C16 - CLI: success iff the package is fully written; flags honoured; existing files untouched."""
import concurrent.futures
import hashlib
import json
import os
import re
import shutil
import subprocess

import vp

LEVEL = "model_checking"
FILES = ["errors.go", "types.go", "stack.go", "input.go", "lexer.go", "parser.go"]
SPECS = {
    "valid": 'grammar calc;\nID = $ID;\nstart = ID "+" ID;\n',
    "validkw": 'grammar type;\nID = $ID;\nstart = ID "+" ID;\n',
    # accepted specifications of unusual shape: no terminal at all; every operator and every kind of declaration
    "validnoterm": 'grammar calc;\nstart = a;\na = b;\nb = ;\n',
    "validfull": 'grammar calc;\n@left "*";\n@left "+";\nNUM = /[0-9]+/;\nID = $ID\nKW = "kw";\nstart = e;\n'
                 'e = e "+" e | e "*" e | "(" e ")" | NUM | ID | KW | "[" [ "-" ] "x" { "," "x" } "]" | "<" {{ ";" }} ( "a" | "b" ) ">";\n',
    "lexical": 'grammar calc;\nID = $ID;\nstart = ID # ID;\n',
    "syntax": 'grammar calc;\nID = $ID\nstart = = ID;\n',
    "semantic": 'grammar calc;\nstart = UNDEF "+";\n',
    "dfaconflict": 'grammar calc;\nAA = /[a-z]+/;\nBB = /[a-x]+/;\nstart = AA BB;\n',
    "lalrconflict": 'grammar calc;\nstart = e;\ne = e "+" e | "x";\n',
}
NAMES = {"valid": "pkgx", "invalid": "9bad", "keyword": "func", "hyphen": "my-lang", "dot": "lang.v2", "space": "calc 2", "slash": "sub/pkgx",
         "underscore": "_x1", "supnum": "v\u00b2", "unidigit": "x\u0663"}


def snapshot(root):
    snap = {}
    for dp, dns, fns in os.walk(root, followlinks=False):
        for n in dns + fns:
            p = os.path.join(dp, n)
            rel = os.path.relpath(p, root)
            st = os.lstat(p)
            if os.path.islink(p):
                snap[rel] = ("link", os.readlink(p), st.st_mode)
            elif os.path.isdir(p):
                snap[rel] = ("dir", "", st.st_mode)
            else:
                snap[rel] = ("file", hashlib.sha1(open(p, "rb").read()).hexdigest(), st.st_mode, st.st_size)
    return snap


def run_one(args):
    ck_work, binary, i, cfg, ref = args
    root = os.path.join(ck_work, "cli", "c%d" % i)
    cwd = os.path.join(root, "cwd")
    os.makedirs(cwd)
    outdir = {"default": cwd, "abs": os.path.join(root, "outabs"), "rel": os.path.join(cwd, "outrel")}[cfg["outflag"]]
    if cfg["outflag"] != "default":
        if cfg["outstate"] == "dir":
            os.makedirs(outdir)
        elif cfg["outstate"] == "file":
            open(outdir, "w").write("i am a file\n")
    elif cfg["outstate"] != "dir":
        pass  # the default output location (cwd) always exists; the generator's outstate is ignored for it
    eff_outstate = "dir" if cfg["outflag"] == "default" else cfg["outstate"]
    name = NAMES.get(cfg["nameflag"], "type" if cfg["input"] == "validkw" else "calc")
    pkg = os.path.join(outdir, name)
    if eff_outstate == "dir" and "/" in name:
        os.makedirs(os.path.dirname(pkg), exist_ok=True)       # the intermediate directory of a name with a slash exists
    if eff_outstate == "dir":
        if cfg["pkgstate"] == "dir":
            os.makedirs(pkg)
        elif cfg["pkgstate"] == "dirwithfiles":
            os.makedirs(pkg)
            open(os.path.join(pkg, "lexer.go"), "w").write("package old\n")
            open(os.path.join(pkg, "keep.txt"), "w").write("precious\n")
        elif cfg["pkgstate"] == "file":
            open(pkg, "w").write("precious\n")
        elif cfg["pkgstate"] == "symlink":
            os.makedirs(os.path.join(root, "elsewhere"))
            open(os.path.join(root, "elsewhere", "keep.txt"), "w").write("precious\n")
            os.symlink(os.path.join(root, "elsewhere"), pkg)
    argv = []
    if cfg["outflag"] == "abs":
        argv += ["-out", outdir]
    elif cfg["outflag"] == "rel":
        argv += ["-out=outrel"]
    if cfg["nameflag"] != "none":
        argv += ["-name", NAMES[cfg["nameflag"]]]
    if cfg["extra"] in ("debug", "both"):
        argv += ["-debug"]
    if cfg["extra"] in ("verbose", "both"):
        argv += ["-verbose"]
    if cfg["mode"] == "help":
        argv += ["-help"]
    elif cfg["mode"] == "version":
        argv += ["-version"]
    elif cfg["mode"] == "badflag":
        argv += ["-bogus"]
    inp = cfg["input"]
    if inp in SPECS:
        open(os.path.join(cwd, "g.ebnf"), "w").write(SPECS[inp])
        argv += ["g.ebnf"]
    elif inp == "missing":
        argv += ["nothere.ebnf"]
    elif inp == "isdir":
        os.makedirs(os.path.join(cwd, "adir.ebnf"))
        argv += ["adir.ebnf"]
    pre = snapshot(root)
    try:
        p = subprocess.run([binary] + argv, cwd=cwd, stdout=subprocess.PIPE, stderr=subprocess.PIPE, text=True, timeout=60)
        rc, out, err = p.returncode, p.stdout, p.stderr
    except subprocess.TimeoutExpired:
        rc, out, err = -9, "", "timeout"
    post = snapshot(root)
    outrel = os.path.relpath(outdir, root)
    created = sorted(os.path.relpath(os.path.join(root, k), outdir) if k.startswith(outrel + os.sep) or k == outrel else "../" + k
                     for k in post if k not in pre)
    modified = sorted(k for k in pre if post.get(k) != pre[k])
    complete = False
    if rc == 0 and eff_outstate == "dir":
        complete = all((os.path.join(os.path.relpath(pkg, root), f) in post and post[os.path.join(os.path.relpath(pkg, root), f)][1] == ref.get((cfg["input"], name, f)))
                       for f in FILES)
    if complete:
        # `-name` replaces the grammar's name in EVERY file (the reference bytes come from the same binary, so a file that keeps
        # the grammar's own name would agree with its reference): the package clause is read from the files themselves
        for f in FILES:
            src = open(os.path.join(pkg, f), encoding="utf-8", errors="replace").read()
            m = re.search(r"^package[ \t]+(\S+)", src, re.M)
            if not m or m.group(1) != name:
                complete = False
    # names a TLA+ string cannot spell are known to the model under an ASCII alias
    alias = {"v\u00b2": "v2sup", "x\u0663": "x3arabic"}
    if name in alias:
        created = [c.replace(name, alias[name]) for c in created]
    obs = {"id": "c%d" % i, "cfg": dict(cfg, outstate=eff_outstate), "argv": argv, "exit0": rc == 0, "rc": rc,
           "success": "Successful" in out or "Successful" in err, "created": created, "modified": modified,
           "complete": complete, "stacktrace": ("goroutine " in err or "panic:" in err or "goroutine " in out),
           "message": bool((out + err).strip()), "out": (out + err)[-300:]}
    shutil.rmtree(root, True)
    return obs


def reference_hashes(ck, binary):
    """the bytes of a complete package, from one clean run per package name"""
    ref = {}
    for inp, name in [(i, n) for i in ("valid", "validnoterm", "validfull") for n in ("calc", "pkgx", "_x1", "x\u0663")] + [("validkw", "type"), ("validkw", "pkgx"), ("validkw", "_x1"), ("validkw", "x\u0663")]:
        d = os.path.join(ck.work, "cli", "ref-%s-%s" % (inp, name))
        os.makedirs(d)
        open(os.path.join(d, "g.ebnf"), "w").write(SPECS[inp])
        subprocess.run([binary, "-name", name, "g.ebnf"], cwd=d, stdout=subprocess.PIPE, stderr=subprocess.PIPE)
        for f in FILES:
            p = os.path.join(d, name, f)
            if os.path.exists(p):
                ref[(inp, name, f)] = hashlib.sha1(open(p, "rb").read()).hexdigest()
    return ref


def run(ck):
    quick = ck.tier == "quick"
    ck.stage_specs()
    binary = os.path.join(ck.work, "bin", "emerge")
    os.makedirs(os.path.dirname(binary), exist_ok=True)
    env = dict(os.environ, GOFLAGS="-mod=mod", GOPROXY="off")
    env.pop("GOTOOLCHAIN", None)
    p = subprocess.run(["go", "build", "-o", binary, "./cmd/emerge"], cwd=vp.REPO, env=env, stdout=subprocess.PIPE, stderr=subprocess.STDOUT, text=True)
    if p.returncode != 0:
        raise vp.Infra("emerge does not build:\n" + p.stdout[-2000:])
    g = ck.tlc("CliGen", constants={"Small": "TRUE" if quick else "FALSE"}, workers=2, count=False, timeout=600)
    if "GENERATED" not in g.out:
        raise vp.Infra("CliGen failed:\n" + g.out[-2000:])
    cfgs = vp.read_ndjson(os.path.join(ck.work, "tla", "gen_cli.ndjson"))
    if ck.args.replay:
        rp = json.load(open(ck.args.replay))
        cfgs = [rp["cfg"]]
    ref = reference_hashes(ck, binary)
    with concurrent.futures.ThreadPoolExecutor(max_workers=12) as ex:
        obs = list(ex.map(run_one, [(ck.work, binary, i, c, ref) for i, c in enumerate(cfgs)]))
    ck.log("%d configurations run on the real binary" % len(obs))
    if ck.args.selftest:
        o = next(x for x in obs if x["exit0"] and x["success"])
        o["created"] = o["created"][:-1]
        q = next(x for x in obs if not x["exit0"])
        q["modified"] = ["cwd/g.ebnf"]
        obs = [o, q]
    vp.write_ndjson(os.path.join(ck.work, "tla", "cli.ndjson"), obs)
    r = ck.tlc("CliCheck", timeout=1800)
    if not r.ok:
        raise vp.Infra("CliCheck did not complete:\n" + r.out[-2000:])
    by = {o["id"]: o for o in obs}
    n = 0
    for tag in ("EXIT", "ANNOUNCE", "CREATED", "MODIFIED", "STACKTRACE", "NOMESSAGE"):
        for d in r.printed(tag):
            o = by[d["id"]]
            n += 1
            ck.violation("emerge %s (input %s, output %s/%s, package location %s): %s - expected %s; exit=%d success=%s created=%s modified=%s: %s" %
                         (" ".join(o["argv"]), o["cfg"]["input"], o["cfg"]["outflag"], o["cfg"]["outstate"], o["cfg"]["pkgstate"], tag,
                          d["expect"], o["rc"], o["success"], o["created"], o["modified"], o["out"][-120:].replace("\n", " ")),
                         {"property": "C16", "kind": tag, "cfg": {k: v for k, v in o["cfg"].items()}})
    if ck.args.selftest:
        print("SELFTEST %s: a created file hidden / a modification invented -> %d report(s)" % ("OK" if n >= 2 else "FAILED", n))
        return 0 if n >= 2 else 2
    ck.coverage["traces_validated_against_impl"] += len(obs)
    for o in obs[:: max(1, len(obs) // 8)]:
        ck.sample({"argv": o["argv"], "input": o["cfg"]["input"], "pkgstate": o["cfg"]["pkgstate"], "exit": o["rc"], "created": o["created"]})
    ck.assumptions += ["flags are written before the file argument (documented usage); the tests run as root, so an unreadable input is modelled by a directory",
                       "a complete package = the six files with the bytes of a clean run for the same package name"]
    return ck.finish({"exhaustive": True, "configurations": len(obs)})
