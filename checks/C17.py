"""C17 - processing is a pure function of the text: no cross-run or cross-goroutine interference."""
import itertools
import json
import os
import re
import subprocess

import vp
import emitcommon as ec
from C15 import ORDER_SENSITIVE

LEVEL = "model_checking"
G = "grammar %s;\n"
ITEMS = [
    ("expr", "spec", G % "expr" + 'start = e;\ne = e "+" t | t;\nt = t "*" f | f;\nf = "(" e ")" | ID;\nID = $ID;\n'),
    ("lists", "spec", G % "lists" + 'start = {item ","} [item];\nitem = "a" | "b" | ("a" "b") | {{"c"}};\n'),
    ("shared", "spec", G % "shared" + 'start = ["a" "b"] {"a" "b"} ("a" "b") {{"a" "b"}} x;\nx = ["a" "b"] | {"b" "a"};\n'),
    ("kw", "spec", ec.POOL["kw"]),
    ("quotes", "spec", ec.POOL["quotes"]),
    ("bad", "spec", ORDER_SENSITIVE["undef-mixed"]),
    ("amb", "spec", ORDER_SENSITIVE["lalr-conflicts"]),
    ("prec", "spec", G % "prec" + 'start = e;\ne = e "+" e | e "*" e | "x";\n@left "*";\n@left "+";\n'),
    ("p-ident", "pattern", "[A-Za-z_][0-9A-Za-z_]*"),
    ("p-num", "pattern", "-?[0-9]+(\\.[0-9]+)?"),
    ("p-alt", "pattern", "(a|b)*abb"),
    ("p-bad", "pattern", "[9-0]"),
    # character classes that are assembled from several parts, and their negations
    ("p-word", "pattern", "\\w+"),
    ("p-xdigit", "pattern", "0x[[:xdigit:]]+"),
    ("p-alnum", "pattern", "[[:alpha:]][[:alnum:]_]*"),
    ("p-notword", "pattern", "\\W\\S\\D"),
    ("p-uni", "pattern", "\\p{Lu}+x"),
    ("p-notuni", "pattern", "\\P{Lu}+x"),
    ("p-uniboth", "pattern", "\\p{Ll}\\P{Ll}\\p{Nd}\\P{Nd}"),
    # failures of every kind, alone and combined: what one failed run leaves behind must not reach the next run
    ("p-syn", "pattern", "(a"),
    ("p-sem-syn", "pattern", "a{4,2}("),
    ("p-sem-syn2", "pattern", "[9-0]x)"),
    ("p-sem", "pattern", "a{4,2}"),
    ("s-badpat", "spec", G % "badpat" + 'NUM = /[0-9]{3,1}(/;\nID = /[a-z]+/;\nstart = NUM ID;\n'),
    ("s-lexerr", "spec", G % "lexerr" + 'start = "a" # ;\n'),
    ("s-synerr", "spec", G % "synerr" + 'start = = "a";\n'),
    ("s-predef", "spec", G % "predef" + 'WS = $SPACE;\nNUM = $NUMBER;\nstart = NUM;\n'),
    ("s-conflict", "spec", ORDER_SENSITIVE["dfa-conflicts"]),
    # the same TEXT as a string in one specification and as a pattern in another (different languages)
    ("s-dotstr", "spec", G % "dotstr" + 'start = "." "a.b" "x+" "[ab]";\n'),
    # alphabets that differ only in code points without a character literal (U+FFFD, a surrogate): the emitted labels differ
    ("s-fffd", "spec", G % "fffd" + 'XX = /a\\xFFFD/;\nstart = XX;\n'),
    ("s-d800", "spec", G % "dsurr" + 'XX = /a\\xD800/;\nstart = XX;\n'),
    ("s-dc00", "spec", G % "dcsurr" + 'XX = /a\\xDC00/;\nstart = XX;\n'),
    ("s-dotpat", "spec", G % "dotpat" + 'ANY = /./;\nAB = /a.b/;\nXS = /x+/;\nCL = /[ab]/;\nstart = ANY AB XS CL;\n'),
]


def race_reports(stderr):
    """data race reports classified by their innermost non-runtime frame"""
    sites = []
    for block in stderr.split("WARNING: DATA RACE")[1:]:
        # first stack of the report (the access that races); innermost frame outside the Go standard library
        first = block.split("\n\n")[0]
        frames = re.findall(r"^  (\S.*)\(\)\n\s+(\S+?):(\d+)", first, re.M)
        site = "unknown"
        for fn, path, line in frames:
            if "/toolchain@" in path or "/go/src/" in path or path.startswith("/usr/"):
                continue
            site = re.sub(r"\[.*?\]", "", fn)
            break
        sites.append(site)
    return sites


def run(ck):
    quick = ck.tier == "quick"
    ck.stage_specs()
    # ---- design level: the shared hasher breaks purity, a hasher per call does not ----
    r_sh = ck.tlc("Hasher", cfg="HasherShared.cfg", workers=4, timeout=600, must_finish=False, count=False)
    r_ok = ck.tlc("Hasher", cfg="Hasher.cfg", workers=8, timeout=900)
    if "Invariant Pure is violated" in r_ok.out:
        ck.violation("design level: hashStrings with a hasher per call is not pure in the model", {"property": "C17", "kind": "model"})
    ck.notes.append("Hasher.tla: shared hasher violates purity in the model = %s; hasher per call: %d states, invariant holds = %s" %
                    ("Invariant Pure is violated" in r_sh.out, r_ok.distinct, r_ok.ok))

    items = [{"id": i, "kind": k, "text": t} for i, k, t in ITEMS]
    # --replay: a sequential interference is re-run with exactly its order of items (taken from the replay file); a race or a
    # divergence under concurrency is not reproducible by construction: the concurrent sub-check alone is run again
    rp = json.load(open(ck.args.replay)) if ck.args.replay else None
    seq_only = bool(rp and rp.get("kind") == "interference" and rp.get("order_items"))
    conc_only = bool(rp and not seq_only)
    if seq_only:
        items = rp["order_items"]
    vp.write_ndjson(os.path.join(ck.work, "items.ndjson"), items)
    # isolated baselines: each item alone in a fresh process
    base = {}
    for k, it in enumerate(items):
        p = ck.run_harness(["purity-one", "-in", "items.ndjson", "-index", str(k)])
        m = re.search(r"DIGEST (\S+) (\S+)", p.stdout)
        base[it["id"]] = m.group(2)
    # sequential processing, all orders of up to 3 (4) items of a sub-pool and rotations of the whole pool
    idx = list(range(len(items)))
    if seq_only:
        orders = [idx]
    elif conc_only:
        orders = []
    else:
        orders = [list(p) for n in (2, 3) for p in itertools.permutations(idx[:6] if quick else idx[:8], n)]
        orders += [list(p) for p in itertools.permutations(idx, 2) if list(p) not in orders]          # every ordered pair of the whole pool
        orders += [idx[i:] + idx[:i] for i in range(len(idx))] + [idx[::-1]]
        if not quick:
            orders += [list(p) for p in itertools.permutations(idx[6:13], 4)]           # 840 orders of four (the pool has grown: all of it would be 4*10^5)
    vp.write_ndjson(os.path.join(ck.work, "orders.ndjson"), orders)
    ck.run_harness(["purity-seq", "-in", "items.ndjson", "-orders", "orders.ndjson", "-out", "seq.ndjson"], timeout=1800)
    recs = vp.read_ndjson(os.path.join(ck.work, "seq.ndjson"))
    # concurrent processing under the race detector
    conc, sites = [], []
    if not seq_only:
        race = ck.harness(extra_flags=("-race",), name="harness-race")
        env = dict(os.environ, GORACE="halt_on_error=0 history_size=3")
        p = subprocess.run([race, "purity-conc", "-in", "items.ndjson", "-out", "conc.ndjson", "-n", "8", "-iters", "12" if quick else "60"],
                           cwd=ck.work, stdout=subprocess.PIPE, stderr=subprocess.PIPE, text=True, timeout=2400, env=env)
        if not os.path.exists(os.path.join(ck.work, "conc.ndjson")):
            raise vp.Infra("concurrent run failed: " + p.stderr[-2000:])
        conc = vp.read_ndjson(os.path.join(ck.work, "conc.ndjson"))
        sites = race_reports(p.stderr)
    recs += conc
    for r in recs:
        r["ref"] = base[r["base"]]
        r["posok"] = True
    if ck.args.selftest:
        recs = recs[:30]
        recs[3]["hash"] = "e" * 16
    vp.write_ndjson(os.path.join(ck.work, "tla", "layouts.ndjson"), recs)
    r = ck.tlc("History", timeout=1200)
    if not r.ok:
        raise vp.Infra("History did not complete:\n" + r.out[-2000:])
    diffs = r.printed("DIFFERS")
    if ck.args.selftest:
        print("SELFTEST %s: one digest corrupted -> %d report(s)" % ("OK" if len(diffs) == 1 else "FAILED", len(diffs)))
        return 0 if len(diffs) == 1 else 2
    ck.coverage["traces_validated_against_impl"] += len(recs)
    dep_sites = {f["match"]["site"] for f in ck.findings if f.get("kind") == "callsite"}
    emerge_sites = sorted(set(s for s in sites if "gardenbed/emerge" in s))
    other_sites = sorted(set(s for s in sites if "gardenbed/emerge" not in s))
    for s in emerge_sites:
        ck.violation("data race reported by the race detector with innermost frame %s (8 goroutines processing different specifications)" % s,
                     {"property": "C17", "kind": "race", "site": s})
    for s in other_sites:
        what = "data race in %s" % s
        hit = next((f for f in ck.findings if f.get("kind") == "callsite" and re.search(f["match"]["site"], s)), None)
        if hit and ck.known(hit["id"], what):
            continue
        ck.violation("data race reported with innermost frame %s" % s, {"property": "C17", "kind": "race", "site": s})
    conc_ids = {(c["base"], c["variant"]) for c in conc}
    for d in diffs:
        is_conc = (d["base"], d["variant"]) in conc_ids
        what = "item %s, %s: the result differs from the isolated run" % (d["base"], d["variant"])
        # a divergence under concurrency is a consequence of the listed dependency races only if every race of this run is listed
        if is_conc and sites and not emerge_sites and all(any(re.search(f["match"]["site"], s) for f in ck.findings if f.get("kind") == "callsite") for s in other_sites):
            if ck.known("DEP-RACES-RESULT", what):
                continue
        rec = {"property": "C17", "kind": "interference", "base": d["base"], "variant": d["variant"]}
        m = re.match(r"order \[([0-9 ]+)\]", d["variant"])
        if m and not is_conc:
            rec["order_items"] = [items[int(k)] for k in m.group(1).split()]
        ck.violation(what, rec)
    for x in recs[:: max(1, len(recs) // 8)]:
        ck.sample({"item": x["base"], "run": x["variant"], "digest": x["hash"], "isolated": x["ref"]})
    ck.assumptions += ["the race detector is the observation channel for unsynchronised access; schedules are those the Go scheduler produced in this run",
                       "digest of a run = sha1 of the derived grammar, definitions, precedences, scanner automaton, owner table, LALR table and the emitted files (or error texts)"]
    return ck.finish({"exhaustive": False, "items": len(items), "sequential_orders": len(orders), "concurrent_runs": len(conc),
                      "race_reports": len(sites), "race_sites": sorted(set(sites))[:12]})
