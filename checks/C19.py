"""C19 - the compiled emitted lexer tokenises input exactly as the token automaton says."""
import concurrent.futures
import json
import os
import random

import vp
import emitcommon as ec

LEVEL = "model_checking"


def token_samples(art, rnd, maxlen=5):
    """strings (lists of code points) leading to accepting states, found by walking emerge's automaton"""
    delta = {}
    for s, sym, nx in art["trans"]:
        delta.setdefault(s, []).append((sym, nx))
    acc = {int(s) for s, _ in art["owner"]}
    out, partial = [], []
    frontier = [((), art["start"])]
    seen = set()
    for depth in range(maxlen):
        nxt = []
        for w, s in frontier:
            moves = delta.get(s, [])
            rnd.shuffle(moves)
            for sym, n2 in moves[:6]:
                w2 = w + (sym,)
                if (n2, len(w2)) in seen and rnd.random() < 0.7:
                    continue
                seen.add((n2, len(w2)))
                (out if n2 in acc else partial).append(list(w2))
                nxt.append((w2, n2))
        frontier = nxt[:60]
    return out[:80], partial[:40]


def make_texts(art, rnd, count, maxrunes):
    toks, partial = token_samples(art, rnd)
    seps = [[], [32], [10], [9], [32, 32], [13, 10]]
    # characters at the edges of every UTF-8 length class and of the second-byte ranges of the decoder
    junk = [[35], [64], [233], [0x20AC], [126], [48], [97], [34],
            [0x80], [0xBF], [0xFF], [0x7FF], [0x800], [0xFFF], [0xD7FF], [0xE000], [0xFFFD], [0xFFFF], [0x10000], [0x3FFFF], [0x10FFFF]]
    texts = []
    for _ in range(count):
        t = []
        while len(t) < maxrunes - 6:
            r = rnd.random()
            if r < 0.62 and toks:
                t += rnd.choice(toks)
            elif r < 0.72 and partial:
                t += rnd.choice(partial)
            elif r < 0.80:
                t += rnd.choice(junk)
            t += rnd.choice(seps)
            if rnd.random() < 0.15:
                break
        texts.append(t[:maxrunes])
    texts += [[], [32], [10, 10], toks[0] if toks else [97]]
    # inputs are UTF-8 texts: no NUL (the reader's end marker), no surrogates, nothing beyond U+10FFFF
    return [[c for c in t if 0 < c <= 0x10FFFF and not 0xD800 <= c <= 0xDFFF] for t in texts]


def validate_reader(ck, rt):
    vp.write_ndjson(os.path.join(ck.work, "tla", "rtraces.ndjson"), rt)
    r1 = ck.tlc("ReaderTrace", timeout=2400)
    if not r1.ok:
        raise vp.Infra("ReaderTrace did not complete:\n" + r1.out[-2000:])
    byid = {t["id"]: t for t in rt}
    for d in r1.printed("RMISMATCH"):
        t = byid[d["id"]]
        ck.violation("emitted reader (half size %d) on source %s: operation #%d %s returned %s, the reader contract gives %s" %
                     (t["n"], t["src"], d["at"] + 1, t["ops"][d["at"]]["op"] if d["at"] < len(t["ops"]) else "(end)",
                      json.dumps(t["ops"][d["at"]]) if d["at"] < len(t["ops"]) else t["fail"], d["expect"]),
                     {"property": "C19", "kind": "reader", "n": t["n"], "src": t["src"], "ops": [o["op"] for o in t["ops"]]})


def reader_records(drv, n, cases, prefix):
    reqs = [{"op": "reader", "id": "%s%d-%d" % (prefix, n, i), "text": "".join(map(chr, r["src"])), "n": n, "ops": r["ops"]} for i, r in enumerate(cases)]
    resp = ec.drive(drv, reqs)
    out = []
    for q, r in zip(reqs, cases):
        d = resp[q["id"]]
        ops = [dict(x, op=o) for x, o in zip(d["res"], r["ops"])]
        out.append({"id": q["id"], "src": r["src"], "ops": ops, "fail": d["fail"] if len(ops) == len(r["ops"]) else (d["fail"] or "short"), "lenient": False, "n": n})
    return out


def validate_streams(ck, autos, streams, specs):
    """GenStream on the recorded streams; returns (TLC result, mismatches)."""
    vp.write_ndjson(os.path.join(ck.work, "tla", "gautos.ndjson"), autos)
    vp.write_ndjson(os.path.join(ck.work, "tla", "gstreams.ndjson"), streams)
    os.environ["JAVA_TOOL_OPTIONS"] = (os.environ.get("JAVA_TOOL_OPTIONS", "").replace("-Xss256m", "") + " -Xss256m").strip()
    r2 = ck.tlc("GenStream", timeout=3000)
    if not r2.ok:
        raise vp.Infra("GenStream did not complete:\n" + r2.out[-2000:])
    byid = {s["id"]: s for s in streams}
    mism = r2.printed("MISMATCH")
    for d in mism:
        s = byid[d["id"]]
        i = d["i"]
        got = (json.dumps(s["toks"][i]) if i < len(s["toks"]) else "end=%s %s:%s %s" % (s["end"], s["eln"], s["ecol"], s["emsg"]))
        exp = ("end of input" if d["k"] == "EOF" else "lexical error at %d:%d" % (d["ln"], d["col"]) if d["k"] == "ERR" else
               "token %s %r at %d:%d" % (d["k"], "".join(map(chr, d["lx"])), d["ln"], d["col"]))
        text = "".join(map(chr, s["cps"]))
        ck.violation("%s: text %r (%d runes): step %d must be %s, the emitted lexer gives %s" % (s["id"], text[-60:], len(s["cps"]), i + 1, exp, got[:160]),
                     {"property": "C19", "kind": "stream", "spec": specs[s["id"].split("/")[0]], "text": text, "n": int(s["id"].rsplit("/n", 1)[1])})
    bad = {d["id"]: d["i"] for d in mism}
    expect = sum((bad[k] + 2) if k in bad else (len(s["toks"]) + 2) for k, s in byid.items())
    if r2.distinct != expect:
        raise vp.Infra("trace acceptance count is off: TLC found %d states, the recorded streams need %d" % (r2.distinct, expect))
    return r2, mism


def stream_record(q, st, auto_index):
    return {"id": q["id"], "auto": auto_index, "cps": q["cps"], "toks": st["toks"], "end": st["end"],
            "eln": st["eln"], "ecol": st["ecol"], "emsg": st["emsg"][:120]}


def replay(ck, rp):
    """Re-derives one recorded case: the specification is emitted and compiled again, the one text (or the one reader
    operation sequence) is run on it and validated by TLC as in the full check."""
    name = "replay"
    ec.POOL[name] = rp.get("spec") or ec.POOL["kw"]
    arts = ec.emit_all(ck, [name])
    a = arts[name]
    if a["err"]:
        raise vp.Infra("the specification of the replay file is rejected: " + a["err"][:200])
    vet_ok, vet_out, build_ok, build_out, drv = ec.prepare(ck, a)
    if not build_ok:
        ck.violation("the emitted package does not compile: %s" % build_out[:300], {"property": "C19", "kind": "does-not-compile", "spec": ec.POOL[name]})
        return ck.finish()
    if rp.get("kind") == "reader":
        validate_reader(ck, reader_records(drv, rp["n"], [{"src": rp["src"], "ops": rp["ops"]}], "P"))
    else:
        cps = [ord(c) for c in rp["text"]]
        q = {"op": "scan", "id": "%s/t0/n%d" % (name, rp["n"]), "text": rp["text"], "n": rp["n"], "cps": cps}
        resp = ec.drive(drv, [{k: v for k, v in q.items() if k != "cps"}])
        validate_streams(ck, [ec.auto_record(a)], [stream_record(q, resp[q["id"]]["stream"], 1)], {name: ec.POOL[name]})
    ck.coverage["traces_validated_against_impl"] += 1
    ck.sample({"replayed": rp.get("text", rp.get("ops"))})
    return ck.finish()


def run(ck):
    quick = ck.tier == "quick"
    ck.stage_specs()
    if ck.args.replay:
        return replay(ck, json.load(open(ck.args.replay)))
    rnd = random.Random(ck.seed)
    # Specifications whose token automaton accepts the empty string are left to C08 (table encoding): "the longest
    # run from each token start" is then an endless stream of empty tokens, for the automaton and for the emitted lexer alike.
    arts = ec.emit_all(ck, [n for n in ec.POOL if not n.startswith("nullable")])
    bad = [a for a in arts.values() if a["err"]]
    if bad:
        raise vp.Infra("pool specification rejected: %s: %s" % (bad[0]["id"], bad[0]["err"][:200]))
    drivers = {}

    def prep(a):
        vet_ok, vet_out, build_ok, build_out, drv = ec.prepare(ck, a)
        return a["id"], build_ok, build_out, drv
    with concurrent.futures.ThreadPoolExecutor(max_workers=8) as ex:
        for pid, ok, out, drv in ex.map(prep, arts.values()):
            if not ok:
                ck.violation("spec %s: the emitted package does not compile: %s" % (pid, out[:300].replace("\n", " | ")),
                             {"property": "C19", "kind": "does-not-compile", "spec": ec.POOL[pid]})
            else:
                drivers[pid] = drv
    ck.log("%d emitted packages compiled" % len(drivers))

    # ---- (1) the emitted reader against the reader contract, op sequences generated by TLC ----
    rt = []
    some = sorted(drivers)[0] if drivers else None
    if some:
        for n in (2, 3, 4):
            s = ck.tlc("ReaderOpsSim", cfg="ReaderOpsSim%d.cfg" % n, workers=1, simulate="num=%d" % (6 if quick else 60),
                       extra=["-depth", "40"], count=False, timeout=900, must_finish=False)
            rows = s.printed("OPS")
            seen = set()
            uniq = []
            for r in rows:
                k = json.dumps(r, sort_keys=True)
                if k not in seen:
                    seen.add(k)
                    uniq.append(r)
            uniq = rnd.sample(uniq, min(len(uniq), 700 if quick else 6000))
            rt += reader_records(drivers[some], n, uniq, "R")
        validate_reader(ck, rt)
        ck.coverage["traces_validated_against_impl"] += len(rt)
        ck.log("reader: %d operation sequences replayed on the emitted reader at half sizes 2, 3, 4" % len(rt))

    # ---- (2) token streams, (3) paddings ----
    autos, streams = [], []
    idx = {}
    for pid in sorted(drivers):
        a = arts[pid]
        idx[pid] = len(autos) + 1
        autos.append(ec.auto_record(a))
        texts = make_texts(a, rnd, 120 if quick else 500, 40)
        reqs = []
        for ti, t in enumerate(texts):
            s = "".join(map(chr, t))
            for n in ((16, 4096) if quick else (8, 16, 4096)):
                reqs.append({"op": "scan", "id": "%s/t%d/n%d" % (pid, ti, n), "text": s, "n": n, "cps": t})
        # paddings: every alignment of every token against both half boundaries of a small reader, and the
        # critical windows of the production size
        base = [t for t in texts if 8 <= len(t) <= 30][: (3 if quick else 10)]
        for bi, t in enumerate(base):
            for p in range(0, 2 * 16 + 9):
                for padch in (32, 10):
                    tt = [padch] * p + t
                    reqs.append({"op": "scan", "id": "%s/b%d/p%d.%d/n16" % (pid, bi, p, padch), "text": "".join(map(chr, tt)), "n": 16, "cps": tt})
        if not quick and idx[pid] <= 4:
            for bi, t in enumerate(base[:1]):
                for p in list(range(4096 - 24, 4096 + 4)) + list(range(8192 - 24, 8192 + 4)):
                    tt = [32] * p + t
                    reqs.append({"op": "scan", "id": "%s/b%d/P%d/n4096" % (pid, bi, p), "text": "".join(map(chr, tt)), "n": 4096, "cps": tt})
        resp = ec.drive(drivers[pid], [{k: v for k, v in q.items() if k != "cps"} for q in reqs])
        for q in reqs:
            st = resp[q["id"]]["stream"]
            streams.append(stream_record(q, st, idx[pid]))
    vp.write_ndjson(os.path.join(ck.work, "tla", "gautos.ndjson"), autos)
    vp.write_ndjson(os.path.join(ck.work, "tla", "gstreams.ndjson"), streams)
    if ck.args.selftest:
        v = next(s for s in streams if len(s["toks"]) >= 2)
        v["toks"][1]["col"] += 1
        u = next(s for s in streams if len(s["toks"]) >= 3 and s["id"] != v["id"])
        del u["toks"][1]
        vp.write_ndjson(os.path.join(ck.work, "tla", "gstreams.ndjson"), [v, u])
        r = ck.tlc("GenStream")
        h = len(r.printed("MISMATCH"))
        print("SELFTEST %s: a column shifted / a token dropped -> %d of 2 streams rejected" % ("OK" if h == 2 else "FAILED", h))
        return 0 if h == 2 else 2
    r2, mism = validate_streams(ck, autos, streams, ec.POOL)
    ck.coverage["traces_validated_against_impl"] += len(streams)
    ck.log("streams: %d (texts x reader sizes x paddings) validated, %d mismatches" % (len(streams), len(mism)))
    for s in streams[:: max(1, len(streams) // 8)]:
        ck.sample({"id": s["id"], "text": "".join(map(chr, s["cps"]))[-40:], "tokens": [t["k"] for t in s["toks"]][:8], "end": s["end"]})
    ck.assumptions += ["offsets, lines and columns count characters (runes); a line ends with LF",
                       "lexemes of any length (half size 8 in the thorough tier makes most tokens longer than the reader); small half sizes (2..16) exercise every alignment; specifications whose automaton accepts the empty string are left to C08",
                       "NUL never occurs in inputs (reserved end marker)"]
    return ck.finish({"exhaustive": False, "specs": len(drivers), "reader_traces": len(rt), "streams": len(streams)})
