------------------------------- MODULE LRxRD -------------------------------
(* C04 part 2 (and C20): the shift-reduce driver running on the tables embedded
   in emerge (impltable.json, probed from the real ACTION/GOTO) in lock-step
   with an independent deterministic recursive-descent recogniser written from
   the documented EBNF grammar (docs/5-definitions.md), over ALL token
   sequences up to MaxLen tokens.  In every reachable product state both
   machines must agree, for every possible next token and for end of input, on
   whether it can be consumed - so they accept the same sentences and detect
   an error at the same token (the first one with no valid continuation).   *)
EXTENDS Integers, Sequences, FiniteSets, TLC, Json
CONSTANT MaxLen

Impl == JsonDeserialize("impltable.json")
Toks == {"=", ";", "|", "(", ")", "[", "]", "{", "}", "{{", "}}", "<", ">",
         "grammar", "@left", "@right", "@none", "IDENT", "TOKEN", "STRING", "REGEX", "PREDEF"}
End == "$end"

IAct(s, t) == LET k == "t:" \o t IN IF s + 1 <= Len(Impl.act) /\ k \in DOMAIN Impl.act[s + 1] THEN Impl.act[s + 1][k] ELSE <<"e", -1>>
IGoto(s, A) == IF s + 1 <= Len(Impl.goto) /\ A \in DOMAIN Impl.goto[s + 1] THEN Impl.goto[s + 1][A] ELSE -1

\* ---- LR driver: feed one token; result <<"ok", stack>> | <<"acc">> | <<"err">>
RECURSIVE LRFeed(_, _)
LRFeed(st, t) ==
  LET a == IAct(st[Len(st)], t) IN
  CASE a[1] = "s" -> <<"ok", Append(st, a[2])>>
    [] a[1] = "a" -> <<"acc">>
    [] a[1] = "r" -> LET p == Impl.prods[a[2] + 1]
                         base == SubSeq(st, 1, Len(st) - Len(p.b))
                         g == IGoto(base[Len(base)], p.h)
                     IN IF g = -1 THEN <<"err">> ELSE LRFeed(Append(base, g), t)
    [] OTHER -> <<"err">>

\* ---- reference: deterministic recursive descent written from docs/5-definitions.md
\*   grammar   = name {decl}            name = "grammar" IDENT [";"]
\*   decl      = token [";"] | directive [";"] | rule ";"
\*   token     = TOKEN "=" (STRING | REGEX | PREDEF)
\*   directive = ("@left" | "@right" | "@none") {{term | "<" rule ">"}}
\*   rule      = lhs "=" [rhs]
\*   rhs       = sequences of items separated by "|" (the first one not empty), items: term, nonterm, ( ) [ ] { } {{ }}
FirstItem == {"IDENT", "TOKEN", "STRING", "(", "[", "{", "{{"}
Close(o) == CASE o = "(" -> ")" [] o = "[" -> "]" [] o = "{" -> "}" [] o = "{{" -> "}}"
Assoc == {"@left", "@right", "@none"}

\* configuration = <<control state, frames>>; result <<"ok", cfg>> | <<"acc">> | <<"err">>
RECURSIVE RD(_, _, _)
RD(pc, fr, t) ==
  LET ok(pc2, fr2) == <<"ok", <<pc2, fr2>>>>
      ret == \* return to the innermost frame without consuming
        IF fr = <<>> THEN <<"err">>
        ELSE LET f == fr[Len(fr)] rest == SubSeq(fr, 1, Len(fr) - 1) IN
             CASE f \in {")", "]", "}", "}}"} -> IF t = f THEN ok("S1", rest) ELSE <<"err">>
               [] f = "hret"     -> IF t = ">" THEN ok("H1", rest) ELSE <<"err">>
               [] f = "needsemi" -> IF t = ";" THEN ok("D", rest) ELSE <<"err">>
  IN
  CASE pc = "G0" -> IF t = "grammar" THEN ok("G1", fr) ELSE <<"err">>
    [] pc = "G1" -> IF t = "IDENT" THEN ok("G2", fr) ELSE <<"err">>
    [] pc = "G2" -> IF t = ";" THEN ok("D", fr) ELSE RD("D", fr, t)
    [] pc = "D"  -> CASE t = "TOKEN" -> ok("T1", fr)
                      [] t \in Assoc -> ok("H0", fr)
                      [] t = "IDENT" -> ok("R1", Append(fr, "needsemi"))
                      [] t = End     -> <<"acc">>
                      [] OTHER       -> <<"err">>
    [] pc = "T1" -> IF t = "=" THEN ok("T2", fr) ELSE <<"err">>
    [] pc = "T2" -> IF t \in {"STRING", "REGEX", "PREDEF"} THEN ok("OS", fr) ELSE <<"err">>
    [] pc = "OS" -> IF t = ";" THEN ok("D", fr) ELSE RD("D", fr, t)
    [] pc = "H0" -> CASE t \in {"TOKEN", "STRING"} -> ok("H1", fr)
                      [] t = "<" -> ok("R0", Append(fr, "hret"))
                      [] OTHER -> <<"err">>
    [] pc = "H1" -> CASE t \in {"TOKEN", "STRING"} -> ok("H1", fr)
                      [] t = "<" -> ok("R0", Append(fr, "hret"))
                      [] t = ";" -> ok("D", fr)
                      [] OTHER -> RD("D", fr, t)
    [] pc = "R0" -> IF t = "IDENT" THEN ok("R1", fr) ELSE <<"err">>
    [] pc = "R1" -> IF t = "=" THEN ok("RO", fr) ELSE <<"err">>
    [] pc = "RO" -> IF t \in FirstItem THEN RD("S0", fr, t) ELSE ret
    [] pc = "S0" -> CASE t \in {"IDENT", "TOKEN", "STRING"} -> ok("S1", fr)
                      [] t \in {"(", "[", "{", "{{"} -> ok("S0", Append(fr, Close(t)))
                      [] OTHER -> <<"err">>
    [] pc = "S1" -> CASE t \in FirstItem -> RD("S0", fr, t)
                      [] t = "|" -> ok("A1", fr)
                      [] OTHER -> ret
    [] pc = "A1" -> CASE t \in FirstItem -> RD("S0", fr, t)
                      [] t = "|" -> ok("A1", fr)
                      [] OTHER -> ret

VARIABLES lr, pc, fr, w
vars == <<lr, pc, fr, w>>
View == <<lr, pc, fr>>
Init == lr = <<0>> /\ pc = "G0" /\ fr = <<>> /\ w = <<>>
Next == /\ Len(w) < MaxLen
        /\ \E t \in Toks :
             LET a == LRFeed(lr, t) b == RD(pc, fr, t) IN
             /\ a[1] = "ok" /\ b[1] = "ok"
             /\ lr' = a[2] /\ pc' = b[2][1] /\ fr' = b[2][2] /\ w' = Append(w, t)
Spec == Init /\ [][Next]_vars
\* in every reachable product state both machines agree on every possible next token, incl. end of input
Disagreeing == { t \in Toks \cup {End} : LRFeed(lr, t)[1] # RD(pc, fr, t)[1] }
Agree == Disagreeing = {} \/ PrintT("DISAGREE " \o ToJson([w |-> w, toks |-> Disagreeing,
                                     lr |-> [t \in Disagreeing |-> LRFeed(lr, t)[1]], rd |-> [t \in Disagreeing |-> RD(pc, fr, t)[1]]]))
=============================================================================
