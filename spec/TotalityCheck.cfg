SPECIFICATION TSpec
INVARIANT TInv
CHECK_DEADLOCK FALSE
