SPECIFICATION Spec
INVARIANT Agree
CHECK_DEADLOCK FALSE
