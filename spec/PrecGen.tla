------------------------------- MODULE PrecGen -------------------------------
(* Generator for C12: a fixed well-formed expression grammar plus every
   sequence (all orders) of at most MaxLevels distinct directives from a pool
   covering every associativity, string and named terminals, rule handles with
   alternation, with extended operators and with an empty body; the directives
   are placed before, after, or interleaved with the other declarations.     *)
EXTENDS Ebnf, TLC, Json, SequencesExt

CONSTANT MaxLevels

E == NT("e")
S(x) == TStr(x)
EQ == TTok("EQ")
UN == TTok("UN")
Bin(op) == Cat(Cat(E, op), E)
ERhs == Alt(Bin(S("+")), Alt(Bin(S("*")), Alt(Bin(S("^")), Alt(Bin(S("<")), Alt(Bin(EQ), Alt(Cat(E, E), Alt(Cat(UN, E), Alt(S("x"), Cat(Cat(S("("), NT("l")), S(")"))))))))))
Base == << Tok("EQ", "str", "=="), Tok("UN", "str", "!"), Rule("start", E), Rule("e", ERhs),
           Rule("l", Un("star", Cat(E, S(",")))), EmptyRule("u"),
           Rule("g", Cat(Cat(S("x"), Un("grp", Alt(S("+"), Alt(S("<"), S("*"))))), Un("opt", Alt(EQ, UN)))) >>

Pool == <<
  Dir("left",  <<HTerm("+", TRUE)>>),
  Dir("left",  <<HTerm("*", TRUE), HTerm(",", TRUE)>>),
  Dir("right", <<HTerm("^", TRUE), HRule("e", Cat(Cat(S("("), NT("l")), S(")")))>>),   \* a rule handle with terminals BEHIND another handle
  Dir("none",  <<HTerm("<", TRUE), HTerm("EQ", FALSE)>>),
  Dir("left",  <<HRule("e", Cat(E, E))>>),
  Dir("right", <<HRule("e", Alt(Cat(UN, E), S("x")))>>),
  Dir("left",  <<HRule("l", Un("star", Cat(E, S(","))))>>),
  Dir("none",  <<HTerm("UN", FALSE), HEmptyRule("u")>>),
  Dir("right", <<HTerm("x", TRUE), HRule("u", Alt(Cat(Un("opt", S("(")), S("x")), Un("plus", UN)))>>),   \* a rule handle of two alternatives BEHIND another handle (round 10)
  \* the rule g with the alternatives of its group and of its option written in another order: the same production
  Dir("left",  <<HRule("g", Cat(Cat(S("x"), Un("grp", Alt(S("*"), Alt(S("+"), S("<"))))), Un("opt", Alt(UN, EQ))))>>)
>>
Idx == 1..Len(Pool)
Seqs == { q \in UNION { [1..n -> Idx] : n \in 0..MaxLevels } : \A a, b \in 1..Len(q) : a # b => q[a] # q[b] }
Dirs(q) == [j \in 1..Len(q) |-> Pool[q[j]]]
\* interleave: directive j goes after base declaration j (the rest at the end)
Inter(q) == LET RECURSIVE W(_) W(p) == IF p > Len(Base) THEN SubSeq(Dirs(q), IF Len(Base) + 1 <= Len(q) THEN Len(Base) + 1 ELSE Len(q) + 1, Len(q))
                                      ELSE <<Base[p]>> \o (IF p <= Len(q) THEN <<Pool[q[p]]>> ELSE <<>>) \o W(p + 1)
            IN W(1)
Cases == UNION { { [fam |-> "before", decls |-> Dirs(q) \o Base], [fam |-> "after", decls |-> Base \o Dirs(q)],
                   [fam |-> "inter", decls |-> Inter(q)] } : q \in Seqs }
ASSUME /\ ndJsonSerialize("gen_specs.ndjson", SetToSeq(Cases)) /\ PrintT(<<"GENERATED", Cardinality(Cases)>>)
=============================================================================
