------------------------------- MODULE FrontEnd -------------------------------
(* The documented front end of emerge as one reference function on TEXTS:
   the reference scanner (EbnfScan, from the token table) feeding the
   shift-reduce driver on the LALR(1) table of the documented grammar
   (doctable.json).  Outcome(txt) is
     <<"ok">>                    the text is a specification
     <<"err", line, column>>     the first offending token or stray text starts there
     <<"eof">>                   the text ends too early                        *)
EXTENDS EbnfScan

DocT == JsonDeserialize("doctable.json")
FTab == DocT.tab
FTermIdx(t) == CHOOSE j \in 1..Len(FTab.terms) : FTab.terms[j] = t
FSymIdx(x) == CHOOSE j \in 1..Len(FTab.syms) : FTab.syms[j] = x
FAct(q, t) == LET d == FTab.acts[q][FTermIdx(t)] IN IF Len(d) = 1 THEN d[1] ELSE <<"e", 0>>
RECURSIVE FFeed(_, _)
FFeed(st, t) == LET a == FAct(st[Len(st)], t) IN
                CASE a[1] = "s" -> Append(st, a[2])
                  [] a[1] = "a" -> <<0>>
                  [] a[1] = "r" -> LET p == DocT.prods[a[2]]
                                       base == SubSeq(st, 1, Len(st) - Len(p.b))
                                   IN FFeed(Append(base, FTab.trans[base[Len(base)]][FSymIdx(p.h)]), t)
                  [] OTHER -> <<>>
RECURSIVE Drive(_, _, _)
Drive(txt, p, st) ==
  LET t == RefNext(txt, p) IN
  CASE t.k = "ERR" -> <<"err", LineOf(txt, t.b), ColOf(txt, t.b)>>
    [] t.k = "EOF" -> IF FFeed(st, "t:$end") = <<0>> THEN <<"ok">> ELSE <<"eof">>
    [] OTHER -> LET s2 == FFeed(st, "t:" \o t.k) IN
                IF s2 = <<>> THEN <<"err", LineOf(txt, t.b), ColOf(txt, t.b)>> ELSE Drive(txt, t.e, s2)
Outcome(txt) == Drive(txt, 1, <<1>>)
=============================================================================
