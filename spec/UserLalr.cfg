SPECIFICATION Spec
CONSTANT K = 4
INVARIANT Inv
CHECK_DEADLOCK FALSE
