------------------------------- MODULE Hasher -------------------------------
(* Design-level model for C17: N goroutines computing hashStrings on lists of
   strings (internal/ebnf/parser/spec/strings.go).  Each call is Reset; Write
   per element; Sum.  With Shared = TRUE all goroutines use one package-level
   hasher (the code before the repair), with Shared = FALSE each call has its
   own.  The hash state is modelled as the sequence of writes since the last
   reset (an injective hash).  Invariant Pure: every completed call returns the
   hash of ITS OWN list - processing is a pure function of the input.  TLC finds
   the interleavings that break it when Shared = TRUE and none otherwise.   *)
EXTENDS Integers, Sequences, FiniteSets, TLC

CONSTANTS Procs, Shared
Lists == [p \in Procs |-> IF p = 1 THEN <<"a", "b">> ELSE IF p = 2 THEN <<"c">> ELSE <<"b", "a">>]

VARIABLES h,      \* hasher state per owner: sequence of strings written since the last reset
          pc,     \* per goroutine: "reset" | "write" | "sum" | "done"
          idx,    \* per goroutine: elements written so far
          ret     \* per goroutine: the value returned
vars == <<h, pc, idx, ret>>
Owner(p) == IF Shared THEN 0 ELSE p

Init == /\ h = [o \in {0} \cup Procs |-> <<>>]
        /\ pc = [p \in Procs |-> "reset"] /\ idx = [p \in Procs |-> 0] /\ ret = [p \in Procs |-> <<"none">>]
Reset(p) == /\ pc[p] = "reset" /\ h' = [h EXCEPT ![Owner(p)] = <<>>] /\ pc' = [pc EXCEPT ![p] = "write"] /\ UNCHANGED <<idx, ret>>
Write(p) == /\ pc[p] = "write"
            /\ IF idx[p] < Len(Lists[p])
               THEN /\ h' = [h EXCEPT ![Owner(p)] = Append(@, Lists[p][idx[p] + 1])] /\ idx' = [idx EXCEPT ![p] = @ + 1] /\ UNCHANGED pc
               ELSE /\ pc' = [pc EXCEPT ![p] = "sum"] /\ UNCHANGED <<h, idx>>
            /\ UNCHANGED ret
Sum(p) == /\ pc[p] = "sum" /\ ret' = [ret EXCEPT ![p] = h[Owner(p)]] /\ pc' = [pc EXCEPT ![p] = "done"] /\ UNCHANGED <<h, idx>>
Next == \E p \in Procs : Reset(p) \/ Write(p) \/ Sum(p)
Spec == Init /\ [][Next]_vars
Pure == \A p \in Procs : pc[p] = "done" => ret[p] = Lists[p]
=============================================================================
