SPECIFICATION Spec
CONSTANT K = 2
INVARIANT Inv
CHECK_DEADLOCK FALSE
