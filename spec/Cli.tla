--------------------------------- MODULE Cli ---------------------------------
(* The contract of the emerge command (property C16, docs: `emerge [flags] FILE`).
   Outcome(cfg) is what a run may do, derived step by step in the order the
   documentation promises checks: flags, input file, specification, output
   directory, package name, package directory, files.
     exit0     the exit status is 0
     success   success is announced
     created   "none"  nothing may be created
               "all"   exactly <name>/ and its six files, complete
               "some"  a subset of those (a failure after the package directory was made)
   Independently of the outcome nothing that existed before may change.    *)
EXTENDS Integers, Sequences, FiniteSets

Files == {"errors.go", "types.go", "stack.go", "input.go", "lexer.go", "parser.go"}
O(e, s, c) == [exit0 |-> e, success |-> s, created |-> c]
Fail == O(FALSE, FALSE, "none")

NameOf(cfg) == CASE cfg.nameflag = "valid" -> "pkgx"
                 [] cfg.nameflag = "invalid" -> "9bad"
                 [] cfg.nameflag = "keyword" -> "func"
                 [] cfg.nameflag = "hyphen" -> "my-lang"          \* an identifier followed by something that is not one
                 [] cfg.nameflag = "dot" -> "lang.v2"
                 [] cfg.nameflag = "space" -> "calc 2"
                 [] cfg.nameflag = "slash" -> "sub/pkgx"          \* (the directory sub exists)
                 [] cfg.nameflag = "underscore" -> "_x1"
                 [] cfg.nameflag = "supnum" -> "v2sup"            \* v followed by SUPERSCRIPT TWO: a number (No), not a digit (Nd)
                 [] cfg.nameflag = "unidigit" -> "x3arabic"       \* x followed by ARABIC-INDIC DIGIT THREE: a digit (Nd), valid in Go
                 [] OTHER -> IF cfg.input = "validkw" THEN "type" ELSE "calc"
NameValid(n) == n \in {"pkgx", "calc", "_x1", "x3arabic"}

Outcome(cfg) ==
  IF cfg.mode \in {"help", "version"} THEN O(TRUE, FALSE, "none")
  ELSE IF cfg.mode = "badflag" THEN Fail
  ELSE IF cfg.input \in {"none", "missing", "isdir"} THEN Fail                  \* no readable input file
  ELSE IF cfg.input \in {"lexical", "syntax", "semantic"} THEN Fail             \* the specification is rejected
  ELSE IF cfg.outstate # "dir" THEN Fail                                        \* the output path must be an existing directory
  ELSE IF ~NameValid(NameOf(cfg)) THEN Fail                                     \* rejected before anything is created
  ELSE IF cfg.pkgstate # "absent" THEN Fail                                     \* never reuse / overwrite an existing package location
  ELSE IF cfg.input \in {"valid", "validkw", "validnoterm", "validfull"} THEN O(TRUE, TRUE, "all")
  ELSE O(FALSE, FALSE, "some")                                                  \* token or grammar conflict found while generating
=============================================================================
