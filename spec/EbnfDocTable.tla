---------------------------- MODULE EbnfDocTable ----------------------------
(* Builds, once, the LALR(1) table of the documented EBNF grammar and writes it to doctable.json. *)
EXTENDS EbnfDocGrammar, LALR, TLC, Json
ASSUME LET tab == LalrTable(DocG) IN
       /\ JsonSerialize("doctable.json", [tab |-> tab, prods |-> DocProds])
       /\ PrintT(<<"BUILT", Len(tab.trans), "states",
                   Cardinality({ <<q, j>> \in (1..Len(tab.raw)) \X (1..Len(tab.terms)) : Cardinality(tab.raw[q][j]) > 1 }), "raw conflicts",
                   Cardinality({ <<q, j>> \in (1..Len(tab.acts)) \X (1..Len(tab.terms)) : Cardinality(tab.acts[q][j]) > 1 }), "unresolved">>)
=============================================================================
