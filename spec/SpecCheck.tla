------------------------------ MODULE SpecCheck ------------------------------
(* C07.  Well-formedness of a specification as the property lists it, computed
   from the ABSTRACT specification (Defects), against what the real code did
   with its printed text (specs.ndjson: accepted or rejected by spec.Parse /
   Spec.DFA(), the diagnostics of known shapes, the Definitions list):
     rejected <=> Defects # {};  the diagnostics name at least one present
     defect and nothing that is neither present nor a documented consequence;
     on acceptance every terminal has exactly one definition with the right
     value and kind.                                                        *)
EXTENDS Ebnf, Predefs, TLC, Json

Cases == ndJsonDeserialize("specs.ndjson")
N == Len(Cases)
Chunk == 128

\* ---- the abstract specification ----
RECURSIVE TermsOfT(_), NTsOfT(_)
TermsOfT(t) == IF t.k = "t" THEN {<<t.n, t.s>>} ELSE IF t.k = "nt" THEN {} ELSE UNION { TermsOfT(t.c[i]) : i \in 1..Len(t.c) }
NTsOfT(t)   == IF t.k = "nt" THEN {t.n} ELSE IF t.k = "t" THEN {} ELSE UNION { NTsOfT(t.c[i]) : i \in 1..Len(t.c) }
RhsTerms(rhs) == IF rhs = <<>> THEN {} ELSE TermsOfT(rhs[1])
RhsNTs(rhs)   == IF rhs = <<>> THEN {} ELSE NTsOfT(rhs[1])

Rls(ds) == RulesOf(ds)
UsedTerms(ds) ==      \* <<name, isString>> of every terminal written in a rule or as a handle
  UNION { RhsTerms(Rls(ds)[i].rhs) : i \in 1..Len(Rls(ds)) }
  \cup UNION { { <<ds[i].hs[j].n, ds[i].hs[j].s>> : j \in { x \in 1..Len(ds[i].hs) : ds[i].hs[x].k = "t" } } : i \in { y \in 1..Len(ds) : ds[y].k = "dir" } }
UsedNTs(ds) == UNION { RhsNTs(Rls(ds)[i].rhs) \cup {Rls(ds)[i].name} : i \in 1..Len(Rls(ds)) }
TokDecls(ds, n) == { i \in 1..Len(ds) : ds[i].k = "tok" /\ ds[i].name = n }
TokNames(ds) == { ds[i].name : i \in { j \in 1..Len(ds) : ds[j].k = "tok" } }

BadPatterns == {"[9-0]", "a{2,1}"}     \* the invalid patterns of the generator pool

\* every terminal of the specification with its definitions: name |-> set of <<value, isRegex>>
StrLits(ds) == { p[1] : p \in { q \in UsedTerms(ds) : q[2] } }
NamedUsed(ds) == { p[1] : p \in { q \in UsedTerms(ds) : ~q[2] } }
Terminals(ds) == StrLits(ds) \cup NamedUsed(ds) \cup TokNames(ds)
DefOf(d) == IF d.dk = "str" THEN <<"ok", d.val, FALSE>>
            ELSE IF d.dk = "pat" THEN <<"ok", d.val, TRUE>>
            ELSE IF d.val \in DOMAIN PredefText THEN <<"ok", PredefText[d.val], TRUE>>
            ELSE <<"badpre", d.val, TRUE>>
DefsOfTok(ds, n) == { DefOf(ds[i]) : i \in TokDecls(ds, n) }
\* a string literal defines itself; a name that is both written as a literal and declared as a token does not occur in the pool
NDefs(ds, a) == IF a \in StrLits(ds) THEN 1 + Cardinality(TokDecls(ds, a)) ELSE Cardinality(TokDecls(ds, a))
ValueOf(ds, a) == IF a \in StrLits(ds) THEN <<"ok", a, FALSE>> ELSE CHOOSE d \in DefsOfTok(ds, a) : TRUE
SingleDef(ds) == { a \in Terminals(ds) : NDefs(ds, a) = 1 /\ ValueOf(ds, a)[1] = "ok" }

DupHandles(ds) ==
  LET lv == { i \in 1..Len(ds) : ds[i].k = "dir" }
      hkey(h) == IF h.k = "t" THEN <<"t", h.n, <<>>>> ELSE <<"r", h.name, h.rhs>>
      hset(i) == { hkey(ds[i].hs[j]) : j \in 1..Len(ds[i].hs) }
  IN UNION { UNION { hset(i) \cap hset(j) : j \in { x \in lv : x > i } } : i \in lv }

Defects(ds) ==
  { <<"undef-token", a>> : a \in { x \in NamedUsed(ds) : TokDecls(ds, x) = {} } }
  \cup { <<"multi-def", a>> : a \in { x \in TokNames(ds) : Cardinality(TokDecls(ds, x)) > 1 } }
  \cup { <<"same-value", v>> : v \in { ValueOf(ds, a)[2] : a \in { x \in SingleDef(ds) :
            \E y \in SingleDef(ds) : y # x /\ ValueOf(ds, y)[2] = ValueOf(ds, x)[2] } } }
  \cup { <<"bad-predef", ds[i].val>> : i \in { j \in 1..Len(ds) : ds[j].k = "tok" /\ ds[j].dk = "pre" /\ ds[j].val \notin DOMAIN PredefText } }
  \cup { <<"bad-pattern", ds[i].name>> : i \in { j \in 1..Len(ds) : ds[j].k = "tok" /\ ds[j].dk = "pat" /\ ds[j].val \in BadPatterns } }
  \cup { <<"no-production", n>> : n \in UsedNTs(ds) \ RuleNames(Rls(ds)) }
  \cup (IF "start" \in RuleNames(Rls(ds)) THEN {} ELSE {<<"no-start", "start">>})
  \cup (IF DupHandles(ds) = {} THEN {} ELSE {<<"dup-handle", "*">>})

\* diagnostics that legitimately accompany a present defect (observed behaviour, DESIGN section 6 C07)
Consequences(ds, D) ==
  { <<"undef-token", ds[i].name>> : i \in { j \in 1..Len(ds) : ds[j].k = "tok" /\ <<"bad-predef", ds[j].val>> \in D } }
  \cup (IF \E d \in D : d[1] = "no-start" THEN {<<"no-production", "start">>} ELSE {})

Kinds(S) == { d[1] : d \in S }
DiagOf(d) == <<d[1], IF d[1] = "dup-handle" THEN "*" ELSE d[2]>>
DiagSet(c) == { DiagOf(c.diags[i]) : i \in 1..Len(c.diags) }

ExpectedDefs(ds) == { <<a, ValueOf(ds, a)[2], ValueOf(ds, a)[3]>> : a \in SingleDef(ds) }
RecordedDefs(c) == { <<c.defs[i].t, c.defs[i].v, c.defs[i].re>> : i \in 1..Len(c.defs) }

VARIABLES lvl, k
vars == <<lvl, k>>
Init == lvl = 0 /\ k = 0
Min(a, b) == IF a < b THEN a ELSE b
Next == \/ lvl = 0 /\ lvl' = 1 /\ k' \in 0..((N - 1) \div Chunk)
        \/ lvl = 1 /\ lvl' = 2 /\ k' \in (k * Chunk + 1)..Min((k + 1) * Chunk, N)
Spec == Init /\ [][Next]_vars

Report(tag, c, D) == PrintT(tag \o " " \o ToJson([id |-> c.id, defects |-> D, diags |-> DiagSet(c)]))
Check(c) ==
  LET D == Defects(c.decls)
      rejected == ~c.ok \/ c.dfaerr # ""
  IN /\ (rejected /\ D = {}) => Report("FALSEREJECT", c, D)
     /\ (~rejected /\ D # {}) => Report("FALSEACCEPT", c, D)
     /\ (rejected /\ D # {} /\ DiagSet(c) \cap D = {}) => Report("NOTNAMED", c, D)
     /\ (rejected /\ ~(DiagSet(c) \subseteq (D \cup Consequences(c.decls, D)))) => Report("ABSENTNAMED", c, D)
     /\ (~rejected /\ D = {} /\ RecordedDefs(c) # ExpectedDefs(c.decls)) => Report("DEFS", c, D)
     /\ (~rejected /\ D = {} /\ { c.defs[i].t : i \in 1..Len(c.defs) } # { c.terms[i] : i \in 1..Len(c.terms) }) => Report("DEFS", c, D)
     /\ (~rejected /\ D = {} /\ Len(c.defs) # Cardinality(RecordedDefs(c))) => Report("DEFS", c, D)
Inv == lvl = 2 => Check(Cases[k])
=============================================================================
