SPECIFICATION Spec
CONSTANT N = 3
CONSTANT Variant = "emit"
CONSTANT MaxRunes = 7
CONSTANT Kinds = {97, 10, 233, 8364}
INVARIANT Emit
CHECK_DEADLOCK FALSE
