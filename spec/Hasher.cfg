SPECIFICATION Spec
CONSTANT Procs = {1, 2, 3}
CONSTANT Shared = FALSE
INVARIANT Pure
CHECK_DEADLOCK FALSE
