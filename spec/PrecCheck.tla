------------------------------ MODULE PrecCheck ------------------------------
(* C12.  The precedence levels recorded by the real spec.Parse (specs.ndjson,
   field precs) against the directives of the abstract specification:
   same number and order of levels, same associativity, exactly the listed
   terminals; for a rule handle <r = e> every recorded production has head r,
   is one of the grammar's own productions, there is one per alternative of
   e, and together their bodies denote exactly what e denotes (compared on
   strings up to length K over the languages of the derived grammar, so the
   names emerge synthesises do not matter).                                 *)
EXTENDS Ebnf, TLC, Json

Cases == ndJsonDeserialize("specs.ndjson")
N == Len(Cases)
Chunk == 64

DirsOf(ds) == LET RECURSIVE G(_) G(i) == IF i > Len(ds) THEN <<>> ELSE (IF ds[i].k = "dir" THEN <<ds[i]>> ELSE <<>>) \o G(i + 1) IN G(1)
TermHandles(d) == { d.hs[j].n : j \in { x \in 1..Len(d.hs) : d.hs[x].k = "t" } }
RuleHandles(d) == { j \in 1..Len(d.hs) : d.hs[j].k = "r" }

\* least fixpoint of the derived grammar on strings up to length K
RECURSIVE LFP(_, _)
LFP(prods, env) == LET e2 == StepL(prods, env) IN IF e2 = env THEN env ELSE LFP(prods, e2)
LangOf(c) == LFP(c.prods, Bottom(NTsOf(c.prods)))

RECURSIVE Alternatives(_)
Alternatives(t) == IF t.k = "alt" THEN 1 + Alternatives(t.c[2]) ELSE IF t.k = "talt" THEN 2 ELSE 1
NAlt(h) == IF h.rhs = <<>> THEN 1 ELSE Alternatives(h.rhs[1])

ProdSet(ps) == { ps[i] : i \in 1..Len(ps) }
LevelOk(c, L, d, p) ==
  /\ p.assoc = d.assoc
  /\ ProdSet(p.terms) = TermHandles(d) /\ Len(p.terms) = Cardinality(TermHandles(d))
  /\ \A q \in ProdSet(p.prods) : q \in ProdSet(c.prods) /\ \E j \in RuleHandles(d) : d.hs[j].name = q.h
  /\ \A j \in RuleHandles(d) :
       LET mine == { q \in ProdSet(p.prods) : q.h = d.hs[j].name }
           others == { i \in RuleHandles(d) : i # j /\ d.hs[i].name = d.hs[j].name }
       IN \/ others # {}        \* two handles for the same head in one level: only the union is observable
          \/ /\ Cardinality(mine) = NAlt(d.hs[j])
             /\ UNION { ProdLang(q, L) : q \in mine } = (IF d.hs[j].rhs = <<>> THEN {Eps} ELSE Denot(d.hs[j].rhs[1], L))

Check(c) ==
  LET ds == DirsOf(c.decls)
      L == LangOf(c)
  IN /\ ~c.ok => PrintT("REJECTED " \o ToJson([id |-> c.id]))
     /\ (c.ok /\ Len(c.precs) # Len(ds)) => PrintT("LEVELS " \o ToJson([id |-> c.id, lvl |-> 0]))
     /\ (c.ok /\ Len(c.precs) = Len(ds)) =>
          \A i \in 1..Len(ds) : LevelOk(c, L, ds[i], c.precs[i]) \/ PrintT("LEVELS " \o ToJson([id |-> c.id, lvl |-> i]))

VARIABLES lvl, k
vars == <<lvl, k>>
Init == lvl = 0 /\ k = 0
Min(a, b) == IF a < b THEN a ELSE b
Next == \/ lvl = 0 /\ lvl' = 1 /\ k' \in 0..((N - 1) \div Chunk)
        \/ lvl = 1 /\ lvl' = 2 /\ k' \in (k * Chunk + 1)..Min((k + 1) * Chunk, N)
Spec == Init /\ [][Next]_vars
Inv == lvl = 2 => Check(Cases[k])
=============================================================================
