------------------------------ MODULE CliCheck ------------------------------
(* C16: every configuration of CliGen was materialised in a scratch directory, the REAL binary was run, and the
   directory was snapshotted before and after (cli.ndjson).  Each observation must be an outcome Cli!Outcome allows. *)
EXTENDS Cli, TLC, Json
Obs == ndJsonDeserialize("cli.ndjson")
N == Len(Obs)
Chunk == 128
SeqSet(s) == { s[i] : i \in 1..Len(s) }
Allowed(cfg) == LET n == NameOf(cfg) IN {n} \cup { n \o "/" \o f : f \in Files }
Check(o) ==
  LET exp == Outcome(o.cfg)
      rep(tag) == PrintT(tag \o " " \o ToJson([id |-> o.id, expect |-> exp]))
  IN /\ (o.exit0 = exp.exit0) \/ rep("EXIT")
     /\ (o.success = exp.success) \/ rep("ANNOUNCE")
     /\ (CASE exp.created = "none" -> o.created = <<>>
           [] exp.created = "all"  -> SeqSet(o.created) = Allowed(o.cfg) /\ o.complete
           [] exp.created = "some" -> SeqSet(o.created) \subseteq Allowed(o.cfg)) \/ rep("CREATED")
     /\ (o.modified = <<>>) \/ rep("MODIFIED")
     /\ (~o.stacktrace) \/ rep("STACKTRACE")
     /\ (exp.exit0 \/ o.message) \/ rep("NOMESSAGE")
VARIABLES lvl, k
vars == <<lvl, k>>
Init == lvl = 0 /\ k = 0
Min(a, b) == IF a < b THEN a ELSE b
Next == \/ lvl = 0 /\ lvl' = 1 /\ k' \in 0..((N - 1) \div Chunk)
        \/ lvl = 1 /\ lvl' = 2 /\ k' \in (k * Chunk + 1)..Min((k + 1) * Chunk, N)
Spec == Init /\ [][Next]_vars
Inv == lvl = 2 => Check(Obs[k])
=============================================================================
