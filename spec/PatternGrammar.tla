--------------------------- MODULE PatternGrammar ---------------------------
(* The documented pattern grammar (docs/5-definitions.md, "Regular Expression /
   Grammar") as a recogniser.  A string is a sequence of one-character strings.
   Every non-terminal N is an operator N(s, I) from a set I of start positions
   to the set of positions where some sentence of N starting in I can end
   (all parses at once, so the ambiguity of the documented grammar is harmless).
   InDoc(s) <=> the WHOLE of s is a sentence of `regex`.                      *)
EXTENDS Integers, Sequences, FiniteSets

Digits    == {"0", "1", "2", "3", "4", "5", "6", "7", "8", "9"}
HexDigits == Digits \cup {"A", "B", "C", "D", "E", "F"}
Escaped   == {"\\", "|", ".", "?", "*", "+", "(", ")", "[", "]", "{", "}", "$"}
PosixWords == {<<"[", ":", "b", "l", "a", "n", "k", ":", "]">>,
               <<"[", ":", "s", "p", "a", "c", "e", ":", "]">>,
               <<"[", ":", "d", "i", "g", "i", "t", ":", "]">>,
               <<"[", ":", "x", "d", "i", "g", "i", "t", ":", "]">>,
               <<"[", ":", "u", "p", "p", "e", "r", ":", "]">>,
               <<"[", ":", "l", "o", "w", "e", "r", ":", "]">>,
               <<"[", ":", "a", "l", "p", "h", "a", ":", "]">>,
               <<"[", ":", "a", "l", "n", "u", "m", ":", "]">>,
               <<"[", ":", "w", "o", "r", "d", ":", "]">>,
               <<"[", ":", "a", "s", "c", "i", "i", ":", "]">>}
CategoryWords == {<<"M", "a", "t", "h">>,
                  <<"E", "m", "o", "j", "i">>,
                  <<"L", "a", "t", "i", "n">>,
                  <<"G", "r", "e", "e", "k">>,
                  <<"C", "y", "r", "i", "l", "l", "i", "c">>,
                  <<"H", "a", "n">>,
                  <<"P", "e", "r", "s", "i", "a", "n">>,
                  <<"L", "e", "t", "t", "e", "r">>,
                  <<"L", "u">>,
                  <<"L", "l">>,
                  <<"L", "t">>,
                  <<"L", "m">>,
                  <<"L", "o">>,
                  <<"L">>,
                  <<"M", "a", "r", "k">>,
                  <<"M", "n">>,
                  <<"M", "c">>,
                  <<"M", "e">>,
                  <<"M">>,
                  <<"N", "u", "m", "b", "e", "r">>,
                  <<"N", "d">>,
                  <<"N", "l">>,
                  <<"N", "o">>,
                  <<"N">>,
                  <<"P", "u", "n", "c", "t", "u", "a", "t", "i", "o", "n">>,
                  <<"P", "c">>,
                  <<"P", "d">>,
                  <<"P", "s">>,
                  <<"P", "e">>,
                  <<"P", "i">>,
                  <<"P", "f">>,
                  <<"P", "o">>,
                  <<"P">>,
                  <<"S", "e", "p", "a", "r", "a", "t", "o", "r">>,
                  <<"Z", "s">>,
                  <<"Z", "l">>,
                  <<"Z", "p">>,
                  <<"Z">>,
                  <<"S", "y", "m", "b", "o", "l">>,
                  <<"S", "m">>,
                  <<"S", "c">>,
                  <<"S", "k">>,
                  <<"S", "o">>,
                  <<"S">>}

\* terminals
Tok(s, I, w) == { j + Len(w) : j \in { i \in I : i + Len(w) - 1 <= Len(s) /\ SubSeq(s, i, i + Len(w) - 1) = w } }
Tok1(s, I, c) == { i + 1 : i \in { j \in I : j <= Len(s) /\ s[j] = c } }
OneIn(s, I, S) == { i + 1 : i \in { j \in I : j <= Len(s) /\ s[j] \in S } }
OneNotIn(s, I, S) == { i + 1 : i \in { j \in I : j <= Len(s) /\ s[j] \notin S } }
AnyOne(s, I) == { i + 1 : i \in { j \in I : j <= Len(s) } }
Words(s, I, W) == UNION { Tok(s, I, w) : w \in W }

RECURSIVE PlusIn(_, _, _)
PlusIn(s, I, S) == LET J == OneIn(s, I, S) IN IF J = {} THEN {} ELSE J \cup PlusIn(s, J, S)

Num(s, I)         == PlusIn(s, I, Digits)                                   \* num = {{ digit }}
Hex(s, I)         == OneIn(s, I, HexDigits)
AsciiChar(s, I)   == Hex(s, Hex(s, Tok(s, I, <<"\\", "x">>)))               \* "\x" hex_digit{2}
UnicodeChar(s, I) == LET h4 == Hex(s, Hex(s, Hex(s, Hex(s, Tok(s, I, <<"\\", "x">>)))))
                         h5 == Hex(s, h4)  h6 == Hex(s, h5)  h7 == Hex(s, h6)  h8 == Hex(s, h7)
                     IN h4 \cup h5 \cup h6 \cup h7 \cup h8                  \* "\x" hex_digit{4,8}
EscapedChar(s, I)   == OneIn(s, Tok1(s, I, "\\"), Escaped)
UnescapedChar(s, I) == OneNotIn(s, I, Escaped)
SingleChar(s, I)    == UnicodeChar(s, I) \cup AsciiChar(s, I) \cup EscapedChar(s, I) \cup UnescapedChar(s, I)
AnyChar(s, I)       == Tok1(s, I, ".")
CharClass(s, I)     == OneIn(s, Tok1(s, I, "\\"), {"s", "S", "d", "D", "w", "W"})
AsciiCharClass(s, I) == Words(s, I, PosixWords)
UnicodeCharClass(s, I) ==
  Tok1(s, Words(s, Tok1(s, OneIn(s, Tok1(s, I, "\\"), {"p", "P"}), "{"), CategoryWords), "}")
CharInRange(s, I)   == UnicodeChar(s, I) \cup AsciiChar(s, I) \cup AnyOne(s, I)
CharRange(s, I)     == CharInRange(s, Tok1(s, CharInRange(s, I), "-"))
CharGroupItem(s, I) == UnicodeCharClass(s, I) \cup AsciiCharClass(s, I) \cup CharClass(s, I)
                       \cup CharRange(s, I) \cup SingleChar(s, I)
RECURSIVE PlusGroupItem(_, _)
PlusGroupItem(s, I) == LET J == CharGroupItem(s, I) IN IF J = {} THEN {} ELSE J \cup PlusGroupItem(s, J)
CharGroup(s, I)     == LET o == Tok1(s, I, "[") IN Tok1(s, PlusGroupItem(s, o \cup Tok1(s, o, "^")), "]")
MatchItem(s, I)     == AnyChar(s, I) \cup SingleChar(s, I) \cup CharClass(s, I) \cup AsciiCharClass(s, I)
                       \cup UnicodeCharClass(s, I) \cup CharGroup(s, I)
UpperBound(s, I)    == LET c == Tok1(s, I, ",") IN c \cup Num(s, c)
Range(s, I)         == LET n == Num(s, Tok1(s, I, "{")) IN Tok1(s, n \cup UpperBound(s, n), "}")
Repetition(s, I)    == Tok1(s, I, "?") \cup Tok1(s, I, "*") \cup Tok1(s, I, "+") \cup Range(s, I)
Quantifier(s, I)    == LET r == Repetition(s, I) IN r \cup Tok1(s, r, "?")
OptQuantifier(s, I) == I \cup Quantifier(s, I)
Match(s, I)         == OptQuantifier(s, MatchItem(s, I))
Anchor(s, I)        == Tok1(s, I, "$")

RECURSIVE Expr(_, _), Subexpr(_, _), SubexprItem(_, _), Group(_, _)
Group(s, I)       == OptQuantifier(s, Tok1(s, Expr(s, Tok1(s, I, "(")), ")"))
SubexprItem(s, I) == Anchor(s, I) \cup Group(s, I) \cup Match(s, I)
Subexpr(s, I)     == IF I = {} THEN {} ELSE LET J == SubexprItem(s, I) IN IF J = {} THEN {} ELSE J \cup Subexpr(s, J)
Expr(s, I)        == IF I = {} THEN {} ELSE LET J == Subexpr(s, I) IN J \cup Expr(s, Tok1(s, J, "|"))
Regex(s, I)       == Expr(s, I \cup Tok1(s, I, "^"))

InDoc(s) == (Len(s) + 1) \in Regex(s, {1})
=============================================================================
