------------------------------- MODULE Regex -------------------------------
(* Reference semantics of emerge's documented pattern language
   (docs/5-definitions.md, "Regular Expression").

   A *term* is a sequence of *factors* (concatenation); the empty term is the
   empty string.  A factor is a record with a uniform field set
     k    "set" | "alt" | "rep"
     neg  negated bracket group (set)
     s    items of a set: records [t, lo, hi, n]
            t = "ch"  one code point lo
            t = "rng" code points lo..hi
            t = "cls" named class n (CharClasses!ClassSet)
            t = "any" the dot
     a    alternatives of an alt / group: sequence of terms
     t    operand of a repetition: a term
     lo,hi  repetition bounds (hi = -1: unbounded)
     syn  concrete quantifier syntax ("q" ? | "star" * | "plus" + | "n" {n} | "n_" {n,} | "nm" {n,m})
     lazy lazy modifier (does not change the language)
   The meaning is given by Antimirov partial derivatives: the state of the
   reference recogniser is a finite *set of terms*; a string is in the language
   iff after deriving by each of its characters some term is nullable.        *)
EXTENDS Integers, Sequences, FiniteSets, CharClasses

\* ---- constructors (used by generators; every record has every field) ----
Item(t, lo, hi, n) == [t |-> t, lo |-> lo, hi |-> hi, n |-> n]
Ch(c)      == Item("ch", c, c, "")
Rng(a, b)  == Item("rng", a, b, "")
Cls(n)     == Item("cls", 0, 0, n)
AnyI       == Item("any", 0, 0, "")
F(k, neg, s, a, t, lo, hi, syn, lazy) ==
  [k |-> k, neg |-> neg, s |-> s, a |-> a, t |-> t, lo |-> lo, hi |-> hi, syn |-> syn, lazy |-> lazy]
SetF(items, neg)          == F("set", neg, items, <<>>, <<>>, 0, 0, "", FALSE)
AltF(terms)               == F("alt", FALSE, <<>>, terms, <<>>, 0, 0, "", FALSE)
RepF(t, lo, hi, syn, lz)  == F("rep", FALSE, <<>>, <<>>, t, lo, hi, syn, lz)
Lit(c)                    == SetF(<<Ch(c)>>, FALSE)

\* ---- membership of a code point in a set factor ----
MatchItem(it, cp) ==
  CASE it.t = "ch"  -> cp = it.lo
    [] it.t = "rng" -> it.lo <= cp /\ cp <= it.hi
    [] it.t = "cls" -> cp \in ClassSet(it.n)
    [] it.t = "any" -> cp \in Ascii
InSet(f, cp) ==
  LET hit == \E i \in 1..Len(f.s) : MatchItem(f.s[i], cp)
  IN IF f.neg THEN cp \in Ascii /\ ~hit ELSE hit

\* ---- nullability ----
RECURSIVE NullT(_), NullF(_)
NullF(f) == CASE f.k = "set" -> FALSE
              [] f.k = "alt" -> \E i \in 1..Len(f.a) : NullT(f.a[i])
              [] f.k = "rep" -> f.lo = 0 \/ NullT(f.t)
NullT(t) == \A i \in 1..Len(t) : NullF(t[i])

Dec(x) == IF x <= 0 THEN x ELSE x - 1

\* ---- partial derivatives wrt one code point: a set of terms ----
RECURSIVE DT(_, _), DF(_, _)
DF(f, cp) ==
  CASE f.k = "set" -> IF InSet(f, cp) THEN {<<>>} ELSE {}
    [] f.k = "alt" -> UNION { DT(f.a[i], cp) : i \in 1..Len(f.a) }
    [] f.k = "rep" -> IF f.hi = 0 THEN {}
                      ELSE LET g == [f EXCEPT !.lo = Dec(f.lo), !.hi = Dec(f.hi)]
                           IN { IF g.hi = 0 THEN d ELSE d \o <<g>> : d \in DT(f.t, cp) }
DT(t, cp) ==
  IF t = <<>> THEN {}
  ELSE LET h == Head(t)  r == Tail(t)
       IN { d \o r : d \in DF(h, cp) } \cup (IF NullF(h) THEN DT(r, cp) ELSE {})

StepRef(S, cp) == UNION { DT(t, cp) : t \in S }
RefAcc(S)      == \E t \in S : NullT(t)

\* membership of a whole word (sequence of code points)
RECURSIVE RunRef(_, _)
RunRef(S, w) == IF w = <<>> THEN S ELSE RunRef(StepRef(S, Head(w)), Tail(w))
InLang(t, w) == RefAcc(RunRef({t}, w))

\* every set factor occurring in a term (for the partition-uniformity check)
RECURSIVE SetsOfT(_), SetsOfF(_)
SetsOfF(f) == CASE f.k = "set" -> {f}
                [] f.k = "alt" -> UNION { SetsOfT(f.a[i]) : i \in 1..Len(f.a) }
                [] f.k = "rep" -> SetsOfT(f.t)
SetsOfT(t) == UNION { SetsOfF(t[i]) : i \in 1..Len(t) }
=============================================================================
