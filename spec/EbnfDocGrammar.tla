--------------------------- MODULE EbnfDocGrammar ---------------------------
(* The grammar of emerge's EBNF language as published in docs/5-definitions.md
   ("Extended Backus-Naur Form / Grammar") in plain production form ({decl} as
   a left-recursive list, [";"] as semi_opt, {{term | "<" rule ">"}} as
   handles), with the published precedence list.  Transcribed from the
   documentation, not from parsing_table.go.                               *)
EXTENDS Integers, Sequences, FiniteSets

NN(x) == "n:" \o x
TT(x) == "t:" \o x
P(h, b) == [h |-> h, b |-> b]
DocProds == <<
  P(NN("grammar"), <<NN("name"), NN("decls")>>),
  P(NN("name"), <<TT("grammar"), TT("IDENT"), NN("semi_opt")>>),
  P(NN("decls"), <<NN("decls"), NN("decl")>>),
  P(NN("decls"), <<>>),
  P(NN("decl"), <<NN("token"), NN("semi_opt")>>),
  P(NN("decl"), <<NN("directive"), NN("semi_opt")>>),
  P(NN("decl"), <<NN("rule"), TT(";")>>),
  P(NN("semi_opt"), <<TT(";")>>),
  P(NN("semi_opt"), <<>>),
  P(NN("token"), <<TT("TOKEN"), TT("="), TT("STRING")>>),
  P(NN("token"), <<TT("TOKEN"), TT("="), TT("REGEX")>>),
  P(NN("token"), <<TT("TOKEN"), TT("="), TT("PREDEF")>>),
  P(NN("directive"), <<TT("@left"), NN("handles")>>),
  P(NN("directive"), <<TT("@right"), NN("handles")>>),
  P(NN("directive"), <<TT("@none"), NN("handles")>>),
  P(NN("handles"), <<NN("handles"), NN("term")>>),
  P(NN("handles"), <<NN("handles"), NN("rule_handle")>>),
  P(NN("handles"), <<NN("term")>>),
  P(NN("handles"), <<NN("rule_handle")>>),
  P(NN("rule_handle"), <<TT("<"), NN("rule"), TT(">")>>),
  P(NN("rule"), <<NN("lhs"), TT("="), NN("rhs")>>),
  P(NN("rule"), <<NN("lhs"), TT("=")>>),
  P(NN("lhs"), <<NN("nonterm")>>),
  P(NN("rhs"), <<NN("rhs"), NN("rhs")>>),
  P(NN("rhs"), <<TT("("), NN("rhs"), TT(")")>>),
  P(NN("rhs"), <<TT("["), NN("rhs"), TT("]")>>),
  P(NN("rhs"), <<TT("{"), NN("rhs"), TT("}")>>),
  P(NN("rhs"), <<TT("{{"), NN("rhs"), TT("}}")>>),
  P(NN("rhs"), <<NN("rhs"), TT("|"), NN("rhs")>>),
  P(NN("rhs"), <<NN("rhs"), TT("|")>>),
  P(NN("rhs"), <<NN("nonterm")>>),
  P(NN("rhs"), <<NN("term")>>),
  P(NN("nonterm"), <<TT("IDENT")>>),
  P(NN("term"), <<TT("TOKEN")>>),
  P(NN("term"), <<TT("STRING")>>) >>

Lv(assoc, terms, prods) == [assoc |-> assoc, terms |-> terms, prods |-> prods]
DocLevels == <<
  Lv("left",  {}, {P(NN("rhs"), <<NN("rhs"), NN("rhs")>>)}),
  Lv("left",  {TT("("), TT("["), TT("{"), TT("{{"), TT("IDENT"), TT("TOKEN"), TT("STRING")}, {}),
  Lv("right", {TT("|")}, {}),
  Lv("none",  {TT("=")}, {}),
  Lv("none",  {TT("@left"), TT("@right"), TT("@none")}, {}) >>

DocG == [prods |-> DocProds, start |-> NN("grammar"), levels |-> DocLevels]
=============================================================================
