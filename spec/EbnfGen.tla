------------------------------- MODULE EbnfGen -------------------------------
(* Generator of specifications for C01 (and reused by C11, C13, C14, C18):
     F1  every printable right-hand-side tree of size <= MaxSize over {"a", "b", x} under rule `start`
     F2  the same sub-expression S under two operators, in one rule and across two rules, for every
         ordered pair of ( ) [ ] { } {{ }} and every S of size <= ShareSize
     F3  rules and tokens whose names coincide with names emerge synthesises
     F4  recursion, empty alternatives, empty rules
   K is irrelevant here (Ebnf.tla needs it only for the languages).                            *)
EXTENDS Ebnf, TLC, Json, SequencesExt

CONSTANTS MaxSize, ShareSize

A == TStr("a")
B == TStr("b")
C == TStr("c")
X == NT("x")
Atoms == {A, B, X}

RECURSIVE Trees(_)
Trees(n) ==
  IF n = 1 THEN Atoms
  ELSE { Un(op, t) : op \in UnaryOps, t \in Trees(n - 1) }
       \cup { TAlt(t) : t \in Trees(n - 1) }
       \cup UNION { { Cat(l, r) : l \in Trees(i), r \in Trees(n - 1 - i) } \cup { Alt(l, r) : l \in Trees(i), r \in Trees(n - 1 - i) } : i \in 1..(n - 2) }
PTrees(n) == { t \in Trees(n) : Printable(t) }
UpTo(n) == UNION { PTrees(i) : i \in 1..n }

XRule == Rule("x", TAlt(C))                       \* x = "c" | ;
Case(fam, decls) == [fam |-> fam, decls |-> decls]

F1 == { Case("F1", <<Rule("start", t), XRule>>) : t \in UpTo(MaxSize) }

Shared == UpTo(ShareSize)
F2 == { Case("F2", <<Rule("start", Cat(Un(o1, s), Un(o2, s))), XRule>>) : o1 \in UnaryOps, o2 \in UnaryOps, s \in Shared }
      \cup { Case("F2", <<Rule("start", Cat(Un(o1, s), NT("y"))), Rule("y", Un(o2, s)), XRule>>) : o1 \in UnaryOps, o2 \in UnaryOps, s \in Shared }
      \cup { Case("F2", <<Rule("start", Cat(Cat(Un(o1, s), A), Un(o1, s))), XRule>>) : o1 \in UnaryOps, s \in Shared }

\* two different sub-expressions, each under the same two operators (the memo of one must not leak into the other)
\* (the last three: bodies whose written SYMBOLS coincide - concatenated vs alternated, with vs without an empty alternative)
Pairs == { <<A, B>>, <<Cat(A, B), Cat(B, A)>>, <<X, A>>, <<Alt(A, B), C>>, <<Cat(A, B), X>>,
           <<Cat(A, B), Alt(A, B)>>, <<Cat(A, B), TAlt(Cat(A, B))>>, <<Alt(A, B), Alt(A, TAlt(B))>> }
F2b == { Case("F2", <<Rule("start", Cat(Cat(Cat(Un(o1, p[1]), Un(o2, p[1])), Un(o1, p[2])), Un(o2, p[2]))), XRule>>) :
           o1 \in UnaryOps, o2 \in UnaryOps, p \in Pairs }
       \cup { Case("F2", <<Rule("start", Cat(Un(o1, p[1]), Un(o2, p[1]))), Rule("x", Cat(Un(o1, p[2]), Un(o2, p[2])))>>) :
           o1 \in UnaryOps, o2 \in UnaryOps, p \in { q \in Pairs : q[1] # X /\ q[2] # X } }

\* the same sub-expression under two operators in two unrelated, unambiguous contexts (a wrongly shared generated
\* non-terminal then changes the language without making the grammar ambiguous):  start = "c" o1(s) | "b" o2(s) "c"
NoX == { s \in Shared : s # X }
F2c == { Case("F2", <<Rule("start", Alt(Cat(C, Un(o1, s)), Cat(Cat(B, NT("y")), C))), Rule("y", Un(o2, s)), XRule>>) :
           o1 \in UnaryOps, o2 \in UnaryOps, s \in NoX }
       \cup { Case("F2", <<Rule("start", Alt(Cat(C, Un(o1, s)), Cat(Cat(B, Un(o2, s)), C))), XRule>>) :
           o1 \in UnaryOps, o2 \in UnaryOps, s \in NoX }

\* three operator applications over two multi-symbol bodies, in every arrangement (a name or a counter that is taken
\* from the wrong place gives two different sub-expressions the same generated non-terminal):  start = o1(s1) o2(s2) o3(s3)
PQ == { Cat(A, B), Cat(C, A) }
F2d == { Case("F2", <<Rule("start", Cat(Cat(Un(o[1], s[1]), Un(o[2], s[2])), Un(o[3], s[3]))), XRule>>) :
           o \in [1..3 -> UnaryOps], s \in [1..3 -> PQ] }
       \cup { Case("F2", <<Rule("start", Cat(Cat(NT("h"), B), NT("y"))), Rule("h", Cat(Un(o[1], s[1]), Un(o[2], s[2]))), Rule("y", Un(o[3], s[3])), XRule>>) :
           o \in [1..3 -> UnaryOps], s \in [1..3 -> PQ] }

\* the same sub-expression under THREE operators in three unambiguous contexts, in every order (what the second
\* application leaves behind decides what the third one gets):  start = "c" o1(s) "c" | "b" o2(s) "c" | "a" o3(s) "c"
F2e == { Case("F2", <<Rule("start", Alt(Cat(Cat(C, Un(o[1], s)), C), Alt(Cat(Cat(B, Un(o[2], s)), C), Cat(Cat(A, Un(o[3], s)), C)))), XRule>>) :
           o \in [1..3 -> UnaryOps], s \in { Cat(A, B), Alt(A, B), A } }

Suffix(op) == CASE op = "grp" -> "group" [] op = "opt" -> "opt" [] op = "star" -> "star" [] op = "plus" -> "plus"
F3 == UNION { {
        \* a string terminal with a spelled-out name and a rule of that name under the same operator
        Case("F3", <<Rule("start", Cat(Un(op, TStr("+")), Un(op, NT("plus")))), Rule("plus", TStr("p"))>>),
        Case("F3", <<Rule("start", Cat(Un(op, TStr("*")), Un(op, NT("star")))), Rule("star", Cat(A, B))>>),
        Case("F3", <<Rule("start", Cat(Un(op, TStr(".")), Un(op, NT("dot")))), Rule("dot", TAlt(B))>>),
        \* user rules named like the synthesised non-terminals
        Case("F3", <<Rule("start", Cat(Un(op, X), NT("gen_x_" \o Suffix(op)))), XRule, Rule("gen_x_" \o Suffix(op), Cat(A, B))>>),
        Case("F3", <<Rule("start", Cat(Un(op, Cat(A, B)), NT("gen1_" \o Suffix(op)))), Rule("gen1_" \o Suffix(op), C)>>),
        Case("F3", <<Rule("gen1_" \o Suffix(op), C), Rule("start", Cat(NT("gen1_" \o Suffix(op)), Un(op, Alt(A, B))))>>),
        Case("F3", <<Rule("start", Cat(Un(op, TStr("+")), NT("gen_plus_" \o Suffix(op)))), Rule("gen_plus_" \o Suffix(op), B)>>),
        \* a TOKEN whose value is the character, next to the string literal
        Case("F3", <<Tok("PLUS", "str", "p"), Rule("start", Cat(Un(op, TTok("PLUS")), Un(op, TStr("+"))))>>)
      } : op \in UnaryOps }

F4 == { Case("F4", <<Rule("start", Alt(Cat(A, NT("start")), TAlt(B)))>>),                  \* start = "a" start | "b" | ;
        Case("F4", <<Rule("start", Alt(Cat(NT("start"), A), B))>>),                          \* left recursion
        Case("F4", <<EmptyRule("start")>>),                                                   \* start = ;
        Case("F4", <<Rule("start", Cat(X, X)), EmptyRule("x")>>),
        Case("F4", <<Rule("start", Cat(X, X)), EmptyRule("x"), Rule("x", A)>>),              \* a rule given twice
        Case("F4", <<Rule("start", Alt(A, B)), Rule("start", Cat(C, NT("start")))>>),
        Case("F4", <<Rule("start", Un("star", Un("opt", A)))>>),
        Case("F4", <<Rule("start", Un("plus", Un("star", TAlt(A))))>>),
        Case("F4", <<Rule("start", Un("opt", Un("grp", Un("plus", Un("star", Un("opt", A))))))>>),
        Case("F4", <<Rule("start", Cat(Un("grp", Alt(A, TAlt(B))), Un("star", Alt(NT("start"), C))))>>),
        Case("F4", <<Rule("start", Alt(Cat(NT("y"), A), B)), Rule("y", Alt(Cat(NT("start"), B), TAlt(C)))>>) }  \* mutual recursion

\* ---- F6: no declarations at all, and every declaration kind, in several orders ----
D6 == << Tok("AA", "str", "x"), Tok("BB", "pat", "[0-9]+"), Tok("CC", "pre", "$ID"),
         Rule("start", Cat(Cat(TTok("AA"), TTok("BB")), Un("opt", TTok("CC")))),
         Dir("left", <<HTerm("AA", FALSE), HTerm("y", TRUE), HRule("start", Alt(A, TAlt(B)))>>),
         Dir("none", <<HEmptyRule("z"), HTerm("BB", FALSE)>>), EmptyRule("z") >>
Orders6 == { <<1, 2, 3, 4, 5, 6, 7>>, <<7, 6, 5, 4, 3, 2, 1>>, <<4, 1, 5, 2, 6, 3, 7>>, <<5, 6, 4, 7, 1, 2, 3>>, <<4>>, <<1>>, <<5>>, <<6, 1>> }
F6 == { Case("F6", <<>>) } \cup { Case("F6", [j \in 1..Len(o) |-> D6[o[j]]]) : o \in Orders6 }

\* ---- F7: string literals written with escapes (the terminal is the text between the quotes, escapes included) ----
EQ == TStr("\\\"")      \* "\""
EB == TStr("\\\\")     \* "\\"
EN == TStr("\\n")       \* "\n"
EM == TStr("a\\\"b")    \* "a\"b"
F7 == { Case("F7", <<Rule("start", Alt(Cat(EQ, EB), EM)), Rule("x", Un(op, EN))>>) : op \in UnaryOps }
      \cup { Case("F7", <<Rule("start", Alt(Cat(Cat(NT("start"), EQ), NT("start")), Alt(Cat(Cat(NT("start"), EB), NT("start")), EM))),
                           Dir("left", <<HTerm("\\\"", TRUE)>>), Dir(a, <<HTerm("\\\\", TRUE), HTerm("a\\\"b", TRUE)>>)>>) : a \in {"left", "right", "none"} }

\* ---- F8: named tokens as operands, a rule declared in several pieces, rule handles that bring their own production ----
NUMT == TTok("NUM")
IDT == TTok("IDT")
F8 == { Case("F8", <<Tok("NUM", "pat", "[0-9]+"), Tok("IDT", "pat", "[a-z]+"),
                     Rule("start", Cat(Un(o1, NUMT), Un(o2, Alt(IDT, NUMT)))), Rule("x", Un(o2, Cat(NUMT, A)))>>) : o1 \in UnaryOps, o2 \in UnaryOps }
      \cup { Case("F8", <<Tok("NUM", "pat", "[0-9]+"), Tok("IDT", "pat", "[a-z]+"),
                     Rule("start", Cat(Cat(Un(o1, NUMT), Un(o2, IDT)), Un(o1, IDT))), Rule("x", Un(o2, NUMT))>>) : o1 \in UnaryOps, o2 \in UnaryOps }
      \cup { Case("F8", <<Rule("start", Cat(X, Un(o1, X))), Rule("x", A), Rule("x", Cat(B, X)), Rule("x", TAlt(C))>>) : o1 \in UnaryOps }
      \cup { Case("F8", <<Rule("start", Cat(Un(o1, Cat(A, B)), X)), Rule("x", Un(o1, Cat(A, B))), Rule("start", Un(o2, Cat(A, B)))>>) : o1 \in UnaryOps, o2 \in UnaryOps }
      \cup { Case("F8", <<Rule("start", Alt(Cat(Cat(NT("start"), A), NT("start")), NT("y"))), Rule("y", B),
                     Dir("left", <<HRule("start", Cat(Cat(NT("start"), A), NT("start")))>>), Dir("none", <<HRule("y", Un(o1, C))>>)>>) : o1 \in UnaryOps }

\* user rules whose NAMES look like synthesised ones, standing alone under an operator (what they are is decided by
\* their productions, never by their name)
F3b == { Case("F3", <<Rule("start", Cat(Un(o2, NT(n \o Suffix(op))), B)), Rule(n \o Suffix(op), A)>>) :
           op \in UnaryOps, o2 \in UnaryOps, n \in {"gen_a_", "gen1_", "generic_"} }
       \cup { Case("F3", <<Rule("start", Cat(C, Un(o2, NT(n \o Suffix(op))))), Rule(n \o Suffix(op), Alt(Cat(A, B), A))>>) :
           op \in UnaryOps, o2 \in UnaryOps, n \in {"gen_a_", "gen2_"} }

\* several handles of both kinds in one directive, in every order
F8b == { Case("F8", <<Rule("start", Alt(Cat(Cat(NT("start"), A), NT("start")), Alt(Cat(Cat(NT("start"), B), NT("start")), C))),
                     Dir(a, [j \in 1..3 |-> hs[o[j]]])>>) :
           a \in {"left", "right"}, o \in { p \in [1..3 -> 1..3] : \A x, y \in 1..3 : x # y => p[x] # p[y] },
           hs \in { << HTerm("a", TRUE), HRule("start", Cat(Cat(NT("start"), A), NT("start"))), HRule("start", Cat(Cat(NT("start"), B), NT("start"))) >> } }

\* ---- F9: parenthesised alternations and concatenations as the left, right or both operands of the same or the other
\* operator, two and three levels deep (the typed tree flattens them: operand ORDER is what is checked) ----
Bin(b, l, r) == IF b = "cat" THEN Cat(l, r) ELSE Alt(l, r)
Grp(t) == Un("grp", t)
BinOps == {"cat", "alt"}
F9all == UNION { {
        Case("F9", <<Rule("start", Bin(b1, Grp(Bin(b2, A, B)), C)), XRule>>),
        Case("F9", <<Rule("start", Bin(b1, A, Grp(Bin(b2, B, C)))), XRule>>),
        Case("F9", <<Rule("start", Bin(b1, Grp(Bin(b2, A, B)), Grp(Bin(b3, C, X)))), XRule>>),
        Case("F9", <<Rule("start", Bin(b1, A, Bin(b1, Grp(Bin(b2, B, C)), X))), XRule>>),
        Case("F9", <<Rule("start", Bin(b1, Bin(b1, Grp(Bin(b2, A, B)), C), X)), XRule>>),
        Case("F9", <<Rule("start", Bin(b1, Grp(Bin(b2, A, B)), Bin(b3, C, X))), XRule>>),
        Case("F9", <<Rule("start", Bin(b1, Grp(TAlt(A)), B)), XRule>>),
        Case("F9", <<Rule("start", Bin(b1, B, Grp(TAlt(Bin(b2, A, C))))), XRule>>),
        Case("F9", <<Rule("start", Un("opt", Bin(b1, Grp(Bin(b2, A, B)), C))), XRule>>)
      } : b1 \in BinOps, b2 \in BinOps, b3 \in BinOps }
\* (only trees the printer can write without adding parentheses of its own)
F9 == { c \in F9all : Printable(c.decls[1].rhs[1]) }

\* ---- F11: LONG constructs - many alternatives, long sequences, deep nesting, many declarations, many handles ----
TN(i) == TStr("t" \o ToString(i))
RECURSIVE AltChain(_, _), CatChain(_), Nest(_, _)
AltChain(i, n) == IF i = n THEN TN(i) ELSE Alt(TN(i), AltChain(i + 1, n))            \* t1 | t2 | ... | tn   (| groups to the right)
CatChain(n) == IF n = 1 THEN TN(1) ELSE Cat(CatChain(n - 1), TN(n))                  \* t1 t2 ... tn
OpAt(d) == CASE d % 4 = 0 -> "grp" [] d % 4 = 1 -> "opt" [] d % 4 = 2 -> "star" [] OTHER -> "plus"
Nest(d, t) == IF d = 0 THEN t ELSE Un(OpAt(d), Nest(d - 1, t))                       \* ( [ { {{ ( ... t ... ) }} } ] )
F11 == { Case("F11", <<Rule("start", AltChain(1, n)), XRule>>) : n \in {11, 12, 13, 14, 15, 25, 40} }
       \cup { Case("F11", <<Rule("start", Un(op, AltChain(1, n))), XRule>>) : n \in {13, 20}, op \in UnaryOps }
       \cup { Case("F11", <<Rule("start", CatChain(n)), XRule>>) : n \in {13, 14, 30} }
       \cup { Case("F11", <<Rule("start", Nest(d, Cat(A, B))), XRule>>) : d \in {8, 13, 16} }
       \cup { Case("F11", [i \in 1..n |-> IF i = 1 THEN Rule("start", AltChain(1, 3)) ELSE Rule("r" \o ToString(i), Cat(TN(i), B))]) : n \in {20, 45} }
       \cup { Case("F11", <<Rule("start", Alt(Cat(Cat(NT("start"), A), NT("start")), B)), Dir("left", [i \in 1..n |-> HTerm("t" \o ToString(i), TRUE)])>>) : n \in {14, 30} }

\* a rule whose name is two other rule names run together, each side under the same operator
F3c == { Case("F3", <<Rule("start", Cat(Cat(Un(op, NT("xy")), C), Un(op, Cat(NT("x"), NT("y"))))), Rule("x", A), Rule("y", B), Rule("xy", C)>>) : op \in UnaryOps }

All == F3c \cup F11 \cup F9 \cup F8b \cup F3b \cup F8 \cup F7 \cup F1 \cup F2 \cup F2b \cup F2c \cup F2d \cup F2e \cup F3 \cup F4 \cup F6
\* Guard of the generator itself: every right-hand side (of a rule or of a rule handle) must be a tree the printer writes
\* without parentheses of its own - otherwise the printed text is the text of ANOTHER tree and every check that compares
\* with the abstract tree would raise a false alarm.  A violation stops the generation (an infrastructure failure).
RhsOk(rhs) == rhs = <<>> \/ Printable(rhs[1])
DeclOk(d) == CASE d.k = "rule" -> RhsOk(d.rhs)
               [] d.k = "dir"  -> \A j \in 1..Len(d.hs) : d.hs[j].k = "t" \/ RhsOk(d.hs[j].rhs)
               [] OTHER        -> TRUE
Unprintable == { c \in All : \E i \in 1..Len(c.decls) : ~DeclOk(c.decls[i]) }
ASSUME Unprintable = {} \/ PrintT(<<"UNPRINTABLE", Unprintable>>)
ASSUME Unprintable = {}

ASSUME /\ ndJsonSerialize("gen_specs.ndjson", SetToSeq(All))
       /\ PrintT(<<"GENERATED", Cardinality(All), "F1", Cardinality(F1), "F2", Cardinality(F2) + Cardinality(F2b) + Cardinality(F2c) + Cardinality(F2d) + Cardinality(F2e), "F3", Cardinality(F3), "F4", Cardinality(F4)>>)
=============================================================================
