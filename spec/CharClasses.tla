---------------------------- MODULE CharClasses ----------------------------
(* Documented / conventional meaning of the named character classes of emerge's
   pattern language (docs/5-definitions.md lists the names; the sets are the
   conventional RE2/POSIX ones over 7-bit ASCII).  Code points are integers.
   The string domain of the pattern properties is ASCII without NUL (1..127)
   plus the code points a pattern names explicitly with \xHHHH.             *)
EXTENDS Integers, Sequences, FiniteSets

Ascii      == 1..127          \* NUL is excluded: it is not part of the string domain
Digit      == 48..57
Upper      == 65..90
Lower      == 97..122
Alpha      == Upper \cup Lower
Alnum      == Digit \cup Alpha
WordC      == Alnum \cup {95}
BlankC     == {32, 9}
SpaceS     == {32, 9, 10, 13, 12}          \* \s  = [ \t\n\r\f]
SpacePosix == {32, 9, 10, 13, 12, 11}      \* [:space:] = [ \t\n\r\f\v]
XDigit     == Digit \cup (65..70) \cup (97..102)

ClassNames == {"s", "S", "d", "D", "w", "W",
               "blank", "space", "digit", "xdigit", "upper", "lower",
               "alpha", "alnum", "word", "ascii"}

\* Unicode categories (\p{..} / \P{..}): what they contain WITHIN ASCII (beyond ASCII nothing is asserted).  Only categories
\* whose ASCII part is beyond doubt; Math, Emoji and Persian are left out.
PoA == {33, 34, 35, 37, 38, 39, 42, 44, 46, 47, 58, 59, 63, 64, 92}
PsA == {40, 91, 123}
PeA == {41, 93, 125}
SmA == {43, 60, 61, 62, 124, 126}
SkA == {94, 96}
UniNames == {"Lu", "Ll", "Lt", "Lm", "Lo", "L", "Letter", "Mn", "Mc", "Me", "M", "Mark", "Nd", "Nl", "No", "N", "Number",
             "Pc", "Pd", "Ps", "Pe", "Pi", "Pf", "Po", "P", "Punctuation", "Sm", "Sc", "Sk", "So", "S", "Symbol",
             "Zs", "Zl", "Zp", "Z", "Separator", "Latin", "Greek", "Cyrillic", "Han"}
UniAscii(n) ==
  CASE n = "Lu" -> Upper [] n = "Ll" -> Lower [] n \in {"L", "Letter", "Latin"} -> Alpha
    [] n \in {"Nd", "N", "Number"} -> Digit
    [] n = "Pc" -> {95} [] n = "Pd" -> {45} [] n = "Ps" -> PsA [] n = "Pe" -> PeA [] n = "Po" -> PoA
    [] n \in {"P", "Punctuation"} -> {95, 45} \cup PsA \cup PeA \cup PoA
    [] n = "Sm" -> SmA [] n = "Sc" -> {36} [] n = "Sk" -> SkA
    [] n \in {"S", "Symbol"} -> SmA \cup {36} \cup SkA
    [] n \in {"Zs", "Z", "Separator"} -> {32}
    [] OTHER -> {}            \* Lt Lm Lo, the marks, Nl No, Pi Pf, So, Zl Zp, Greek, Cyrillic, Han: nothing in ASCII
\* a class name "p:X" is \p{X}, "P:X" is \P{X}
IsUni(n) == Len(n) > 2 /\ SubSeq(n, 1, 2) \in {"p:", "P:"}
UniSet(n) == LET x == SubSeq(n, 3, Len(n)) IN IF SubSeq(n, 1, 2) = "p:" THEN UniAscii(x) ELSE Ascii \ UniAscii(x)

ClassSet(n) ==
  CASE IsUni(n)     -> UniSet(n)
    [] n = "s"      -> SpaceS
    [] n = "S"      -> Ascii \ SpaceS
    [] n = "d"      -> Digit
    [] n = "D"      -> Ascii \ Digit
    [] n = "w"      -> WordC
    [] n = "W"      -> Ascii \ WordC
    [] n = "blank"  -> BlankC
    [] n = "space"  -> SpacePosix
    [] n = "digit"  -> Digit
    [] n = "xdigit" -> XDigit
    [] n = "upper"  -> Upper
    [] n = "lower"  -> Lower
    [] n = "alpha"  -> Alpha
    [] n = "alnum"  -> Alnum
    [] n = "word"   -> WordC
    [] n = "ascii"  -> Ascii
=============================================================================
