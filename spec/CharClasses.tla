---------------------------- MODULE CharClasses ----------------------------
(* Documented / conventional meaning of the named character classes of emerge's
   pattern language (docs/5-definitions.md lists the names; the sets are the
   conventional RE2/POSIX ones over 7-bit ASCII).  Code points are integers.
   The string domain of the pattern properties is ASCII without NUL (1..127)
   plus the code points a pattern names explicitly with \xHHHH.             *)
EXTENDS Integers, Sequences, FiniteSets

Ascii      == 1..127          \* NUL is excluded: it is not part of the string domain
Digit      == 48..57
Upper      == 65..90
Lower      == 97..122
Alpha      == Upper \cup Lower
Alnum      == Digit \cup Alpha
WordC      == Alnum \cup {95}
BlankC     == {32, 9}
SpaceS     == {32, 9, 10, 13, 12}          \* \s  = [ \t\n\r\f]
SpacePosix == {32, 9, 10, 13, 12, 11}      \* [:space:] = [ \t\n\r\f\v]
XDigit     == Digit \cup (65..70) \cup (97..102)

ClassNames == {"s", "S", "d", "D", "w", "W",
               "blank", "space", "digit", "xdigit", "upper", "lower",
               "alpha", "alnum", "word", "ascii"}

ClassSet(n) ==
  CASE n = "s"      -> SpaceS
    [] n = "S"      -> Ascii \ SpaceS
    [] n = "d"      -> Digit
    [] n = "D"      -> Ascii \ Digit
    [] n = "w"      -> WordC
    [] n = "W"      -> Ascii \ WordC
    [] n = "blank"  -> BlankC
    [] n = "space"  -> SpacePosix
    [] n = "digit"  -> Digit
    [] n = "xdigit" -> XDigit
    [] n = "upper"  -> Upper
    [] n = "lower"  -> Lower
    [] n = "alpha"  -> Alpha
    [] n = "alnum"  -> Alnum
    [] n = "word"   -> WordC
    [] n = "ascii"  -> Ascii
=============================================================================
