------------------------------ MODULE TwoBuffer ------------------------------
(* Implementation-shaped model of the two-half input reader, byte for byte:
     Variant = "dep"    github.com/moorara/algo lexer/input/input.go (v0.11.0), used by the EBNF lexer
     Variant = "fixed"  internal/generate/golang/templates/input.go.tmpl after the first repair
                        (lastLoaded, end of input found by the end marker instead of a latched error)
     Variant = "emit"   the template as it is now: "fixed" plus the pending bytes of the lexeme kept outside the
                        buffer (`pending`), so that a lexeme may be longer than the buffer
   A source is a sequence of runes (code points); its bytes are identified as
   <<j, k>> = k-th byte of rune j, <<0, 0>> is the NUL end marker.  One buffer of 2N
   cells is divided into two halves that are loaded alternately.
   Every operator is pure: it maps a reader state (a record) to the new state
   and the value returned to the client.                                    *)
EXTENDS Integers, Sequences, FiniteSets

CONSTANTS N, Variant

NUL == <<0, 0>>     \* the end marker cell
ERRB == <<-1, -1>>  \* "an error was returned instead of a byte"
Min(a, b) == IF a < b THEN a ELSE b
Size(cp) == IF cp < 128 THEN 1 ELSE IF cp < 2048 THEN 2 ELSE IF cp < 65536 THEN 3 ELSE 4

\* the byte stream of a source
RECURSIVE BytesOf(_, _)
BytesOf(src, j) == IF j > Len(src) THEN <<>> ELSE [k \in 1..Size(src[j]) |-> <<j, k>>] \o BytesOf(src, j + 1)
Bytes(src) == BytesOf(src, 1)

\* src.Read(buff[lo : lo+N]) for a strings.Reader / regular file
Load(src, st, lo, half) ==
  LET B == Bytes(src)
      k == Min(N, Len(B) - st.rd)
      filled == [i \in 0..(2 * N - 1) |-> IF i >= lo /\ i < lo + k THEN B[st.rd + (i - lo) + 1] ELSE st.buff[i]]
      marked == IF k < N THEN [filled EXCEPT ![lo + k] = NUL] ELSE filled
  IN IF Variant = "dep"
     THEN IF k = 0 THEN [st EXCEPT !.err = "eof"]                  \* Read returns (0, io.EOF): the error is latched
          ELSE [st EXCEPT !.buff = marked, !.rd = st.rd + k]
     ELSE [st EXCEPT !.buff = marked, !.rd = st.rd + k, !.last = half]
Fixed == Variant \in {"fixed", "emit"}

NewInput(src) ==
  LET st0 == [buff |-> [i \in 0..(2 * N - 1) |-> NUL], fwd |-> 0, beg |-> 0, rd |-> 0, err |-> "none", last |-> 0,
              sizes |-> <<>>, lcols |-> <<>>, pend |-> <<>>, offset |-> 0, line |-> 1, column |-> 1, ncol |-> 1]
  IN Load(src, st0, 0, 0)
\* the dependency's New fails on an empty source
NewFails(src) == Variant = "dep" /\ Len(src) = 0

\* next(): one byte; returns [st, b] with b = "err" when an error is reported instead
NextByte(src, st) ==
  IF st.err # "none" THEN [st |-> st, b |-> ERRB]
  ELSE IF Fixed /\ st.buff[st.fwd] = NUL THEN [st |-> st, b |-> ERRB]     \* stands on the end marker
  ELSE
    LET b == st.buff[st.fwd]
        f1 == st.fwd + 1
        moved == [st EXCEPT !.fwd = f1, !.pend = IF Variant = "emit" THEN Append(@, b) ELSE @]
        st2 == IF f1 = N
               THEN IF Variant = "dep" \/ st.last = 0 THEN Load(src, moved, N, 1) ELSE moved
               ELSE IF f1 = 2 * N
               THEN LET l == IF Variant = "dep" \/ st.last = 1 THEN Load(src, moved, 0, 0) ELSE moved
                    IN IF l.err = "none" THEN [l EXCEPT !.fwd = 0] ELSE l
               ELSE IF Variant = "dep" /\ st.buff[f1] = NUL THEN [moved EXCEPT !.err = "eof"]
               ELSE moved
    IN [st |-> st2, b |-> b]

Push(s, x) == Append(s, x)
Top(s) == s[Len(s)]
Pop(s) == SubSeq(s, 1, Len(s) - 1)

\* Next(): decodes one rune (sizes 1..3 are modelled)
Next_(src, st) ==
  LET r0 == NextByte(src, st) IN
  IF r0.b = ERRB THEN [st |-> r0.st, ret |-> <<"eof">>]
  ELSE IF r0.b = NUL \/ r0.b[2] # 1 THEN [st |-> r0.st, ret |-> <<"invalid">>]      \* NUL or a continuation byte first
  ELSE
    LET j == r0.b[1]  cp == src[j]  sz == Size(cp) IN
    IF sz = 1
    THEN LET s1 == r0.st
             s2 == IF cp = 10 THEN [s1 EXCEPT !.lcols = Push(s1.lcols, s1.ncol), !.ncol = 1]
                   ELSE [s1 EXCEPT !.ncol = s1.ncol + 1]
         IN [st |-> [s2 EXCEPT !.sizes = Push(s2.sizes, 1)], ret |-> <<"rune", cp>>]
    ELSE
      LET r1 == NextByte(src, r0.st) IN
      IF r1.b = ERRB THEN [st |-> r1.st, ret |-> <<"eof">>]
      ELSE IF r1.b # <<j, 2>> THEN [st |-> r1.st, ret |-> <<"invalid">>]
      ELSE IF sz = 2
      THEN [st |-> [r1.st EXCEPT !.sizes = Push(r1.st.sizes, 2), !.ncol = r1.st.ncol + 1], ret |-> <<"rune", cp>>]
      ELSE
        LET r2 == NextByte(src, r1.st) IN
        IF r2.b = ERRB THEN [st |-> r2.st, ret |-> <<"eof">>]
        ELSE IF r2.b # <<j, 3>> THEN [st |-> r2.st, ret |-> <<"invalid">>]
        ELSE [st |-> [r2.st EXCEPT !.sizes = Push(r2.st.sizes, 3), !.ncol = r2.st.ncol + 1], ret |-> <<"rune", cp>>]

IsLF(src, cell) == cell # NUL /\ src[cell[1]] = 10
Retract_(src, st) ==
  IF st.sizes = <<>> THEN [st |-> st, ret |-> <<"ok">>]
  ELSE LET f0 == st.fwd - Top(st.sizes)
           f == IF f0 < 0 THEN f0 + 2 * N ELSE f0
           s1 == [st EXCEPT !.fwd = f, !.sizes = Pop(st.sizes),
                            !.pend = IF Variant = "emit" THEN SubSeq(@, 1, Len(@) - Top(st.sizes)) ELSE @]
           s2 == IF IsLF(src, s1.buff[f])
                 THEN IF s1.lcols # <<>> THEN [s1 EXCEPT !.ncol = Top(s1.lcols), !.lcols = Pop(s1.lcols)] ELSE s1
                 ELSE [s1 EXCEPT !.ncol = s1.ncol - 1]
       IN [st |-> s2, ret |-> <<"ok">>]

RECURSIVE Collect(_, _, _, _)
Collect(buff, from, to, fuel) ==
  IF from = to \/ fuel = 0 THEN <<>>
  ELSE <<buff[from]>> \o Collect(buff, IF from + 1 = 2 * N THEN 0 ELSE from + 1, to, fuel - 1)

Commit(st) == [st EXCEPT !.beg = st.fwd, !.sizes = <<>>, !.lcols = <<>>, !.pend = <<>>,
                         !.offset = st.offset + Len(st.sizes), !.line = st.line + Len(st.lcols), !.column = st.ncol]
PosOf(st) == <<st.offset, st.line, st.column>>
\* (fuel bounds the dependency's loop when forward is stuck at 2N after a failed reload)
Lexeme_(src, st) == [st |-> Commit(st), ret |-> <<"lexeme", IF Variant = "emit" THEN st.pend ELSE Collect(st.buff, st.beg, st.fwd, 2 * N), PosOf(st)>>]
Skip_(src, st)   == [st |-> Commit(st), ret |-> <<"pos", PosOf(st)>>]

Apply(op, src, st) ==
  CASE op = "Next" -> Next_(src, st)
    [] op = "Retract" -> Retract_(src, st)
    [] op = "Lexeme" -> Lexeme_(src, st)
    [] op = "Skip" -> Skip_(src, st)

PendingBytes(st) == LET s == st.sizes IN IF s = <<>> THEN 0 ELSE
                    LET RECURSIVE Sum(_) Sum(i) == IF i = 0 THEN 0 ELSE s[i] + Sum(i - 1) IN Sum(Len(s))
=============================================================================
