SPECIFICATION Spec
CONSTANT K = 4
INVARIANT Same
CHECK_DEADLOCK FALSE
