SPECIFICATION Spec
CONSTANT K = 4
INVARIANT Same
INVARIANT Drift
CHECK_DEADLOCK FALSE
