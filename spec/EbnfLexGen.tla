----------------------------- MODULE EbnfLexGen -----------------------------
(* Writes the reference token definitions of EbnfLexRef as one ndjson record for the harness
   (which needs the sets only to compute the alphabet partition). *)
EXTENDS EbnfLexRef
ASSUME ndJsonSerialize("gen_lexref.ndjson", <<[defs |-> LexDefs]>>) /\ PrintT(<<"GENERATED", Len(LexDefs)>>)
=============================================================================
