------------------------------ MODULE Pipeline ------------------------------
(* C14.  The pipeline of emerge as a state machine of stages with error
   propagation: every run ends, after finitely many steps, in exactly one of
   two outcomes - Ok with a result, or Err with a message - and the command
   turns Err (and bad flags, unreadable files) into a message and a non-zero
   exit status.  The stage results are chosen nondeterministically (inputs are
   arbitrary); TLC checks that no behaviour gets stuck or ends anywhere else.
   The observed entry points are then checked against the allowed outcome
   kinds (TotalityCheck).                                                   *)
EXTENDS Integers, Sequences, FiniteSets, TLC
Stages == <<"flags", "open", "scan+parse", "verify", "automaton", "table", "write">>
VARIABLES stage, outcome, exit
vars == <<stage, outcome, exit>>
Init == stage = 1 /\ outcome = "running" /\ exit = -1
StepOk == /\ outcome = "running" /\ stage <= Len(Stages)
          /\ IF stage = Len(Stages) THEN outcome' = "Ok" /\ exit' = 0 /\ stage' = stage
                                     ELSE stage' = stage + 1 /\ UNCHANGED <<outcome, exit>>
StepErr == /\ outcome = "running" /\ outcome' = "Err" /\ exit' = 1 /\ stage' = stage
Next == StepOk \/ StepErr
Spec == Init /\ [][Next]_vars /\ WF_vars(Next)
AllowedKinds == {"ok", "err"}                      \* what an entry point may do with any input
Total == outcome \in {"running", "Ok", "Err"} /\ (outcome = "Ok" => exit = 0) /\ (outcome = "Err" => exit # 0)
Terminates == <>(outcome \in {"Ok", "Err"})
=============================================================================
