CONSTANT K = 2
CONSTANT MaxLevels = 3
