------------------------------ MODULE GrammarEq ------------------------------
(* C01.  For every generated specification the REAL spec.Parse accepted, the
   productions it derived are in specs.ndjson.  Per case one small state
   machine iterates, in lock-step, the Kleene fixpoint of the EBNF equations
   (Ebnf!StepD: the documented meaning of each right-hand side) and the
   Kleene fixpoint of the derived plain grammar (Ebnf!StepL) on strings up to
   length K.  When both are stable, every user-written rule must denote the
   same set of terminal strings in both: no sentence added, none lost.      *)
EXTENDS Ebnf, SymTab, TLC, Json

Cases == ndJsonDeserialize("specs.ndjson")

VARIABLES c, D, L, done
vars == <<c, D, L, done>>

Rules(k) == RulesOf(Cases[k].decls)
Init == /\ c \in { k \in 1..Len(Cases) : Cases[k].ok }
        /\ D = Bottom(RuleNames(Rules(c)))
        /\ L = Bottom(NTsOf(Cases[c].prods) \cup RuleNames(Rules(c)))
        /\ done = FALSE

Next == /\ ~done
        /\ LET d2 == StepD(Rules(c), D)
               l2 == StepL(Cases[c].prods, L)
           IN /\ D' = d2 /\ L' = l2
              /\ done' = (d2 = D /\ l2 = L)
        /\ c' = c
Spec == Init /\ [][Next]_vars

\* the implementation-shaped model of the symbol table (SymTab.tla) on the same rules
ModelOf(k) == Model(Rules(k))
ImplProds(k) == { Cases[k].prods[i] : i \in 1..Len(Cases[k].prods) }
ModelProds(k) == LET m == ModelOf(k) IN { m.prods[i] : i \in 1..Len(m.prods) }
Explained(k) == ModelProds(k) = ImplProds(k) /\ ModelOf(k).clash

Diff(n) == [rule |-> n, lost |-> D[n] \ L[n], added |-> L[n] \ D[n]]
Bad == { n \in DOMAIN D : D[n] # L[n] }
Same == (done /\ Bad # {}) =>
          PrintT("LANGDIFF " \o ToJson([id |-> Cases[c].id, diffs |-> { Diff(n) : n \in Bad }, explained |-> Explained(c)]))
Drift == (done /\ ModelProds(c) # ImplProds(c)) =>
           PrintT("DRIFT " \o ToJson([id |-> Cases[c].id, onlymodel |-> ModelProds(c) \ ImplProds(c), onlyimpl |-> ImplProds(c) \ ModelProds(c)]))
Stable == done => PrintT("STABLE " \o ToJson([id |-> Cases[c].id]))
=============================================================================
