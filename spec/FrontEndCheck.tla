---------------------------- MODULE FrontEndCheck ----------------------------
(* C20 (lexical part, and any text): fronts.ndjson holds texts with what the
   real spec.Parse reported; FrontEnd!Outcome gives the documented verdict:
   a lexical or syntax error must be reported with the file name and the line
   and column of the first offending token or stray text; a text that ends too
   early must be rejected without naming the position of one of its tokens;
   a text the front end accepts may still be rejected for semantic reasons.  *)
EXTENDS FrontEnd

Cases == ndJsonDeserialize("fronts.ndjson")
N == Len(Cases)
Chunk == 128

Check(c) == LET o == Outcome(c.cps) IN
            \/ o[1] = "ok"
            \/ (o[1] = "err" /\ ~c.s.ok /\ c.s.haspos /\ c.s.hasfile /\ c.s.ln = o[2] /\ c.s.col = o[3])
            \/ (o[1] = "eof" /\ ~c.s.ok)
            \/ PrintT("FRONT " \o ToJson([id |-> c.id, expect |-> o]))
VARIABLES lvl, k
vars == <<lvl, k>>
Init == lvl = 0 /\ k = 0
Min(a, b) == IF a < b THEN a ELSE b
Next == \/ lvl = 0 /\ lvl' = 1 /\ k' \in 0..((N - 1) \div Chunk)
        \/ lvl = 1 /\ lvl' = 2 /\ k' \in (k * Chunk + 1)..Min((k + 1) * Chunk, N)
Spec == Init /\ [][Next]_vars
Inv == lvl = 2 => Check(Cases[k])
=============================================================================
