SPECIFICATION Spec
CONSTANT MaxLen = 9
INVARIANT Agree
VIEW View
CHECK_DEADLOCK FALSE
