-------------------------------- MODULE Ebnf --------------------------------
(* Abstract syntax and documented meaning of emerge's EBNF language
   (docs/1-documentation.md, docs/5-definitions.md).

   A right-hand side is a tree of uniform records [k, n, s, c]:
     k = "t"    terminal n; s = TRUE: written as the string literal "n", FALSE: the TOKEN n
     k = "nt"   non-terminal n
     k = "cat"  c = <<l, r>>   juxtaposition
     k = "alt"  c = <<l, r>>   l | r
     k = "talt" c = <<l>>      l |      (trailing empty alternative)
     k = "grp" | "opt" | "star" | "plus"   c = <<e>>   ( e )  [ e ]  { e }  {{ e }}
   A declaration is a uniform record [k, name, dk, val, rhs, assoc, hs]:
     k = "tok"   name = TOKEN, dk in {"str", "pat", "pre"}, val = text
     k = "rule"  name = head, rhs = <<tree>> or <<>> for `head =`
     k = "dir"   assoc in {"left","right","none"}, hs = handles:
                 [k |-> "t", n, s] or [k |-> "r", name, rhs]
   The meaning of a right-hand side, given the languages of the non-terminals,
   is a set of terminal strings (sequences of terminal names), truncated to
   length K: concat = bounded product, | = union, [e] = e + empty,
   {e} = e*, {{e}} = e+, (e) = e.                                          *)
EXTENDS Integers, Sequences, FiniteSets

CONSTANT K     \* length bound of the compared languages

\* ---- constructors ----
Node(k, n, s, c) == [k |-> k, n |-> n, s |-> s, c |-> c]
TStr(n)   == Node("t", n, TRUE, <<>>)
TTok(n)   == Node("t", n, FALSE, <<>>)
NT(n)     == Node("nt", n, FALSE, <<>>)
Cat(l, r) == Node("cat", "", FALSE, <<l, r>>)
Alt(l, r) == Node("alt", "", FALSE, <<l, r>>)
TAlt(l)   == Node("talt", "", FALSE, <<l>>)
Un(op, e) == Node(op, "", FALSE, <<e>>)
UnaryOps  == {"grp", "opt", "star", "plus"}

Decl(k, name, dk, val, rhs, assoc, hs) == [k |-> k, name |-> name, dk |-> dk, val |-> val, rhs |-> rhs, assoc |-> assoc, hs |-> hs]
Tok(name, dk, val) == Decl("tok", name, dk, val, <<>>, "", <<>>)
Rule(name, t)      == Decl("rule", name, "", "", <<t>>, "", <<>>)
EmptyRule(name)    == Decl("rule", name, "", "", <<>>, "", <<>>)
Dir(assoc, hs)     == Decl("dir", "", "", "", <<>>, assoc, hs)
HTerm(n, s)        == [k |-> "t", n |-> n, s |-> s, name |-> "", rhs |-> <<>>]
HRule(name, t)     == [k |-> "r", n |-> "", s |-> FALSE, name |-> name, rhs |-> <<t>>]
HEmptyRule(name)   == [k |-> "r", n |-> "", s |-> FALSE, name |-> name, rhs |-> <<>>]

\* ---- printability: which trees are written without any extra parentheses ----
\* (parentheses are an operator of the language, so the printer may not add them)
IsAltish(t) == t.k \in {"alt", "talt"}
RECURSIVE Printable(_)
Printable(t) ==
  CASE t.k \in {"t", "nt"} -> TRUE
    [] t.k = "cat"  -> /\ ~IsAltish(t.c[1]) /\ ~IsAltish(t.c[2]) /\ t.c[2].k # "cat"     \* juxtaposition is left-associative and binds tighter
                       /\ Printable(t.c[1]) /\ Printable(t.c[2])
    [] t.k = "alt"  -> /\ ~IsAltish(t.c[1]) /\ Printable(t.c[1]) /\ Printable(t.c[2])   \* | groups to the right
    [] t.k = "talt" -> /\ ~IsAltish(t.c[1]) /\ Printable(t.c[1])
    [] OTHER        -> Printable(t.c[1])

\* ---- bounded languages ----
Eps == <<>>
CatK(A, B) == { p[1] \o p[2] : p \in { q \in A \X B : Len(q[1]) + Len(q[2]) <= K } }
RECURSIVE StarIter(_, _, _)
StarIter(S, X, n) == IF n = 0 THEN X ELSE LET Y == X \cup CatK(S, X) IN IF Y = X THEN X ELSE StarIter(S, Y, n - 1)
StarK(S) == StarIter(S \ {Eps}, {Eps}, K)
PlusK(S) == CatK(S, StarK(S))

\* meaning of a tree given env: non-terminal name -> set of strings (names outside DOMAIN env denote {})
RECURSIVE Denot(_, _)
Denot(t, env) ==
  CASE t.k = "t"    -> {<<t.n>>}
    [] t.k = "nt"   -> IF t.n \in DOMAIN env THEN env[t.n] ELSE {}
    [] t.k = "cat"  -> CatK(Denot(t.c[1], env), Denot(t.c[2], env))
    [] t.k = "alt"  -> Denot(t.c[1], env) \cup Denot(t.c[2], env)
    [] t.k = "talt" -> Denot(t.c[1], env) \cup {Eps}
    [] t.k = "grp"  -> Denot(t.c[1], env)
    [] t.k = "opt"  -> Denot(t.c[1], env) \cup {Eps}
    [] t.k = "star" -> StarK(Denot(t.c[1], env))
    [] t.k = "plus" -> PlusK(Denot(t.c[1], env))

\* the rules of a specification: sequence of [name, rhs] taken from rule declarations AND rule handles
RulesOf(decls) ==
  LET RECURSIVE G(_) G(i) ==
        IF i > Len(decls) THEN <<>>
        ELSE (IF decls[i].k = "rule" THEN <<[name |-> decls[i].name, rhs |-> decls[i].rhs]>>
              ELSE IF decls[i].k = "dir"
              THEN LET hs == decls[i].hs
                       RECURSIVE H(_) H(j) == IF j > Len(hs) THEN <<>>
                                             ELSE (IF hs[j].k = "r" THEN <<[name |-> hs[j].name, rhs |-> hs[j].rhs]>> ELSE <<>>) \o H(j + 1)
                   IN H(1)
              ELSE <<>>) \o G(i + 1)
  IN G(1)
RuleNames(rules) == { rules[i].name : i \in 1..Len(rules) }

\* one Kleene step of the EBNF equations: every rule name denotes the union of its right-hand sides
StepD(rules, env) ==
  [n \in RuleNames(rules) |->
     UNION { IF rules[i].rhs = <<>> THEN {Eps} ELSE Denot(rules[i].rhs[1], env) : i \in { j \in 1..Len(rules) : rules[j].name = n } }]
Bottom(names) == [n \in names |-> {}]

\* ---- plain context-free grammars: productions [h, b] with b a sequence of [t, n] (t = 1 terminal) ----
ProdLang(p, env) ==
  LET RECURSIVE F(_) F(i) == IF i > Len(p.b) THEN {Eps}
                             ELSE CatK(IF p.b[i].t = 1 THEN {<<p.b[i].n>>}
                                       ELSE IF p.b[i].n \in DOMAIN env THEN env[p.b[i].n] ELSE {}, F(i + 1))
  IN F(1)
Heads(prods) == { prods[i].h : i \in 1..Len(prods) }
NTsOf(prods) == Heads(prods) \cup UNION { { prods[i].b[j].n : j \in { x \in 1..Len(prods[i].b) : prods[i].b[x].t = 0 } } : i \in 1..Len(prods) }
StepL(prods, env) ==
  [n \in DOMAIN env |-> UNION { ProdLang(prods[i], env) : i \in { j \in 1..Len(prods) : prods[j].h = n } }]
=============================================================================
