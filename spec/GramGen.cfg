CONSTANT K = 3
CONSTANT MaxSeq = 2
