----------------------------- MODULE ScannerGen -----------------------------
(* Generator for C03: every set of at most MaxDefs terminal definitions drawn
   from the first PoolSize entries of a pool of string literals, patterns and
   predefined patterns (overlapping, nested, prefix-related, identical-language
   and disjoint ones).  The meaning of each definition is a Regex term; the
   harness writes the source text from it.                                   *)
EXTENDS Integers, Sequences, FiniteSets, TLC, Json, SequencesExt, Regex

CONSTANTS MaxDefs, PoolSize

Star(t) == RepF(t, 0, -1, "star", FALSE)
Plus(t) == RepF(t, 1, -1, "plus", FALSE)
Opt(t)  == RepF(t, 0, 1, "q", FALSE)
Set(items) == SetF(items, FALSE)
Lits(cs) == [i \in 1..Len(cs) |-> Lit(cs[i])]

\* kind: "str" (string literal declared as TOKEN = "..."), "inl" (string literal used inline in a rule),
\*       "pat" (TOKEN = /.../), "pre" (TOKEN = $NAME)
D(name, kind, term, pre) == [name |-> name, kind |-> kind, term |-> term, pre |-> pre]

LowR == Rng(97, 122)
DigR   == Rng(48, 57)
Pool == <<
  D("IF",    "str", Lits(<<105, 102>>), ""),                                   \* "if"
  D("IDENT", "pat", <<Plus(<<Set(<<LowR>>)>>)>>, ""),                         \* /[a-z]+/
  D("IN",    "inl", Lits(<<105, 110>>), ""),                                   \* "in"  (inline)
  D("NUM",   "pat", <<Plus(<<Set(<<DigR>>)>>)>>, ""),                           \* /[0-9]+/
  D("INT",   "str", Lits(<<105, 110, 116>>), ""),                              \* "int"
  D("WORD",  "pat", <<Set(<<LowR>>), Star(<<Set(<<LowR, DigR>>)>>)>>, ""),    \* /[a-z][a-z0-9]*/
  D("PLUS",  "inl", Lits(<<43>>), ""),                                         \* "+"
  D("OP",    "pat", <<AltF(<< <<Lit(43)>>, <<Lit(45)>> >>)>>, ""),             \* /(\+|-)/
  D("QUOTE", "str", Lits(<<34>>), ""),                                         \* "\""   one character: "
  D("ID",    "pre", <<Set(<<Rng(65, 90), LowR, Ch(95)>>), Star(<<Set(<<DigR, Rng(65, 90), LowR, Ch(95)>>)>>)>>, "$ID"),
  D("PP",    "str", Lits(<<43, 43>>), ""),                                     \* "++"
  D("VDD",   "pat", <<Lit(118), Set(<<Cls("d")>>), Set(<<Cls("d")>>)>>, ""),           \* /v\d\d/   no operator at all
  D("ESC",   "pat", <<Lit(43), Lit(43)>>, ""),                                          \* /\+\+/   same language as the literal "++"
  D("XAB",   "pat", <<Lit(1), Lit(65)>>, ""),                                           \* /\x01A/
  D("SLS",   "pat", <<Lit(59), Set(<<LowR>>), Lit(59)>>, ""),                   \* /;[a-z];/   same text as the literal ";x;"
  D("SXS",   "inl", Lits(<<59, 120, 59>>), ""),                                 \* ";x;"
  D("IFP",   "pat", <<Lit(105), Lit(102)>>, ""),                                  \* /if/   a pattern without any operator: a pattern all the same
  D("BSL2",  "str", Lits(<<92, 92>>), ""),                                     \* "\\\\"   two escaped backslashes in a row
  D("BSQ",   "inl", Lits(<<92, 34>>), ""),                                     \* "\\\""   an escaped backslash, then an escaped quote
  D("QAQ",   "str", Lits(<<34, 97, 34>>), ""),                                  \* "\"a\""   two escapes in one literal
  D("SLASHQ","str", Lits(<<47, 34, 92>>), ""),                                 \* "/\"\\"  three characters / " \
  D("AB",    "str", Lits(<<97, 98>>), ""),                                      \* "ab"
  D("ABC1",  "pat", <<AltF(<< <<Lit(97), Lit(98)>>, <<Lit(99)>> >>)>>, ""),       \* /(ab|c)/   with ABD1 and "ab": one literal, two patterns,
  D("ABD1",  "pat", <<AltF(<< <<Lit(97), Lit(98)>>, <<Lit(100)>> >>)>>, ""),      \* /(ab|d)/   nothing else in common
  D("IX",    "pat", <<Lit(105), Set(<<LowR>>)>>, ""),                         \* /i[a-z]/
  D("BSL",   "inl", Lits(<<92>>), ""),                                         \* "\\"   one character: \
  D("DIGS",  "pat", <<Plus(<<Set(<<Cls("d")>>)>>)>>, ""),                      \* /\d+/  same language as NUM
  D("NUMBER","pre", <<Opt(<<Lit(45)>>), Plus(<<Set(<<DigR>>)>>), Opt(<<Lit(46), Plus(<<Set(<<DigR>>)>>)>>)>>, "$NUMBER"),
  D("ABC",   "pat", <<Star(<<AltF(<< <<Lit(97)>>, <<Lit(98)>> >>)>>), Lit(99)>>, ""),  \* /(a|b)*c/
  D("MINUS", "str", Lits(<<45>>), ""),                                         \* "-"
  D("WS",    "pre", <<Set(<<Ch(9), Ch(10), Ch(13), Ch(32)>>)>>, "$WS"),
  D("HEX",   "pat", <<Lit(48), Lit(120), Plus(<<Set(<<Cls("xdigit")>>)>>)>>, ""),  \* /0x[[:xdigit:]]+/
  \* patterns that match the empty text (legal, unusual): the start state of the scanner automaton is accepting
  D("AS",    "pat", <<Star(<<Lit(97)>>)>>, ""),                                  \* /a*/
  D("BS",    "pat", <<Star(<<Lit(98)>>)>>, ""),                                  \* /b*/   conflicts with /a*/ on the empty text only
  D("OPTAB", "pat", <<Opt(<<Lit(97), Lit(98)>>)>>, "")                           \* /(ab)?/
>>

Idx == 1..PoolSize
\* the subsets of Idx with 1..MaxDefs elements, built by size (SUBSET Idx would enumerate 2^PoolSize sets)
RECURSIVE OfSize(_)
OfSize(n) == IF n = 1 THEN { {i} : i \in Idx }
             ELSE { S \cup {i} : S \in OfSize(n - 1), i \in Idx } \ OfSize(n - 1)
\* (a string and a pattern with the same TEXT cannot be declared together: "multiple definitions with the same value")
SameText(i, j) == {Pool[i].name, Pool[j].name} = {"IF", "IFP"}
Subsets == UNION { { S \in OfSize(n) : Cardinality(S) = n /\ \A i, j \in S : ~SameText(i, j) } : n \in 1..MaxDefs }
CaseOf(S) == [defs |-> [k \in 1..Cardinality(S) |-> Pool[SetToSeq(S)[k]]]]

ASSUME /\ PoolSize <= Len(Pool)
       /\ ndJsonSerialize("gen_scanner.ndjson", SetToSeq({ CaseOf(S) : S \in Subsets }))
       /\ PrintT(<<"GENERATED", Cardinality(Subsets)>>)
=============================================================================
