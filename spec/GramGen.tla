------------------------------- MODULE GramGen -------------------------------
(* Generator for C06: every right-hand side made of one or two alternatives,
   each a sequence of at most MaxSeq symbols over {"a", "b", start, x}
   (an empty alternative is written last).  The driver pairs them into
   two-rule grammars (all pairs in the thorough tier, a seeded sample in the quick one). *)
EXTENDS Ebnf, TLC, Json, SequencesExt
CONSTANT MaxSeq
SymsG == { TStr("a"), TStr("b"), NT("start"), NT("x") }
SeqsG == UNION { [1..n -> SymsG] : n \in 0..MaxSeq }
RECURSIVE CatOf(_)
CatOf(s) == IF Len(s) = 1 THEN s[1] ELSE Cat(CatOf(SubSeq(s, 1, Len(s) - 1)), s[Len(s)])
Body1(s) == IF s = <<>> THEN <<>> ELSE <<CatOf(s)>>
Body2(s1, s2) == IF s2 = <<>> THEN <<TAlt(CatOf(s1))>> ELSE <<Alt(CatOf(s1), CatOf(s2))>>
Bodies == { Body1(s) : s \in SeqsG } \cup ({ Body2(s1, s2) : s1 \in SeqsG \ {<<>>}, s2 \in SeqsG } \ { Body2(s, s) : s \in SeqsG \ {<<>>} })
ASSUME ndJsonSerialize("gen_bodies.ndjson", SetToSeq({ [rhs |-> b] : b \in Bodies })) /\ PrintT(<<"GENERATED", Cardinality(Bodies)>>)
=============================================================================
