------------------------------- MODULE AstCheck -------------------------------
(* C11.  The two trees emerge builds for a specification (asts.ndjson, exported
   from the real parser.ParseAndBuildAST and ast.Parse) against the abstract
   specification that was printed:
     generic tree  - its leaves, left to right, are exactly the significant
                     tokens with their positions; every interior node applies
                     one production of the documented grammar to its children;
     typed tree    - equals Norm(abstract specification): declarations in
                     order, operators, nesting and operand order as written,
                     concatenations and alternatives flattened, ( ) transparent,
                     a trailing | an empty alternative, $NAME expanded;
                     every declaration and every handle of a directive is
                     recorded at the position of its first token;
     round trip    - printing the typed tree and parsing it again gives a tree
                     of the same structure, and the real Equal agrees (observed
                     by the harness);
     grammar       - the language of every rule of the typed tree equals the
                     language of the productions spec.Parse derived (K).     *)
EXTENDS Ebnf, EbnfDocGrammar, Predefs, TLC, Json

Cases == ndJsonDeserialize("asts.ndjson")
N == Len(Cases)
Chunk == 64

\* ---- generic tree ----
RECURSIVE Leaves(_)
Leaves(g) == IF g.t = "leaf" THEN <<g>> ELSE
             LET RECURSIVE F(_) F(i) == IF i > Len(g.c) THEN <<>> ELSE Leaves(g.c[i]) \o F(i + 1) IN F(1)
SymOf(g) == IF g.t = "leaf" THEN "t:" \o g.k ELSE "n:" \o g.k
RECURSIVE NodesOk(_)
NodesOk(g) == g.t = "leaf" \/
              ( /\ g.t = "node"
                /\ \E p \in 1..Len(DocProds) : DocProds[p].h = "n:" \o g.k /\ DocProds[p].b = [i \in 1..Len(g.c) |-> SymOf(g.c[i])]
                /\ g.b = [i \in 1..Len(g.c) |-> SymOf(g.c[i])]
                /\ \A i \in 1..Len(g.c) : NodesOk(g.c[i]) )
LeafTok(l) == [k |-> l.k, lx |-> l.lx, off |-> l.off, ln |-> l.ln, col |-> l.col]
GenericOk(c) == /\ c.generr = "" /\ Len(c.gen) = 1
                /\ [i \in 1..Len(Leaves(c.gen[1])) |-> LeafTok(Leaves(c.gen[1])[i])] = c.toks
                /\ NodesOk(c.gen[1]) /\ c.gen[1].k = "grammar"

\* ---- typed tree ----
EpsN == Node("eps", "", FALSE, <<>>)
NAry(k, cs) == Node(k, "", FALSE, cs)
Flat(k, x) == IF x.k = k THEN x.c ELSE <<x>>
RECURSIVE Norm(_)
Norm(t) == CASE t.k \in {"t", "nt"} -> t
             [] t.k = "cat"  -> NAry("ncat", Flat("ncat", Norm(t.c[1])) \o Flat("ncat", Norm(t.c[2])))
             [] t.k = "alt"  -> NAry("nalt", Flat("nalt", Norm(t.c[1])) \o Flat("nalt", Norm(t.c[2])))
             [] t.k = "talt" -> NAry("nalt", Flat("nalt", Norm(t.c[1])) \o <<EpsN>>)
             [] t.k = "grp"  -> Norm(t.c[1])
             [] OTHER        -> Un(t.k, Norm(t.c[1]))
NormRhs(rhs) == IF rhs = <<>> THEN <<EpsN>> ELSE <<Norm(rhs[1])>>
NormH(h) == IF h.k = "t" THEN h ELSE [h EXCEPT !.rhs = NormRhs(h.rhs)]
NormDecl(d) == CASE d.k = "tok"  -> IF d.dk = "pre" THEN [d EXCEPT !.dk = "pat", !.val = IF d.val \in DOMAIN PredefText THEN PredefText[d.val] ELSE d.val] ELSE d
                 [] d.k = "rule" -> [d EXCEPT !.rhs = NormRhs(d.rhs)]
                 [] d.k = "dir"  -> [d EXCEPT !.hs = [j \in 1..Len(d.hs) |-> NormH(d.hs[j])]]
TypedOk(c) == c.typerr = "" /\ c.name = "t" /\ c.typed = [i \in 1..Len(c.decls) |-> NormDecl(c.decls[i])]

\* ---- positions recorded in the typed tree: a declaration, and each handle of a directive, is where its first token is.
\* The reference is the generic tree (whose leaves are checked against the printed tokens above): the i-th declaration is
\* the i-th decl node, the j-th handle of a directive the j-th term / rule_handle on the spine of its handles node.
RECURSIVE FirstLeaf(_)
FirstLeaf(g) == IF g.t = "leaf" THEN <<g>> ELSE
                LET RECURSIVE F(_) F(i) == IF i > Len(g.c) THEN <<>> ELSE LET x == FirstLeaf(g.c[i]) IN IF x # <<>> THEN x ELSE F(i + 1) IN F(1)
PosTriple(g) == LET l == FirstLeaf(g) IN IF l = <<>> THEN <<-1, -1, -1>> ELSE <<l[1].off, l[1].ln, l[1].col>>
RECURSIVE DeclNodes(_)
DeclNodes(ds) == IF ds.c = <<>> THEN <<>> ELSE DeclNodes(ds.c[1]) \o <<ds.c[2]>>          \* decls -> decls decl | (empty)
RECURSIVE HandleNodes(_)
HandleNodes(h) == IF Len(h.c) = 1 THEN <<h.c[1]>> ELSE HandleNodes(h.c[1]) \o <<h.c[2]>>     \* handles -> handles X | X
TPosOk(c) == c.generr # "" \/ c.typerr # "" \/
             LET ds == DeclNodes(c.gen[1].c[2]) IN
             /\ Len(ds) = Len(c.tpos)
             /\ \A i \in 1..Len(ds) :
                  /\ c.tpos[i].d = PosTriple(ds[i])
                  /\ LET inner == ds[i].c[1] IN
                     IF inner.k = "directive"
                     THEN LET hn == HandleNodes(inner.c[2]) IN
                          Len(hn) = Len(c.tpos[i].hs) /\ \A j \in 1..Len(hn) : c.tpos[i].hs[j] = PosTriple(hn[j])
                     ELSE c.tpos[i].hs = <<>>

\* ---- grammar obtained from the typed tree = the one emerge derives ----
RECURSIVE DenotN(_, _)
DenotN(t, env) ==
  CASE t.k = "t"    -> {<<t.n>>}
    [] t.k = "nt"   -> IF t.n \in DOMAIN env THEN env[t.n] ELSE {}
    [] t.k = "eps"  -> {Eps}
    [] t.k = "ncat" -> LET RECURSIVE F(_) F(i) == IF i > Len(t.c) THEN {Eps} ELSE CatK(DenotN(t.c[i], env), F(i + 1)) IN F(1)
    [] t.k = "nalt" -> UNION { DenotN(t.c[i], env) : i \in 1..Len(t.c) }
    [] t.k = "opt"  -> DenotN(t.c[1], env) \cup {Eps}
    [] t.k = "star" -> StarK(DenotN(t.c[1], env))
    [] t.k = "plus" -> PlusK(DenotN(t.c[1], env))
TRules(c) == RulesOf(c.typed)
StepT(rules, env) == [n \in RuleNames(rules) |-> UNION { DenotN(rules[i].rhs[1], env) : i \in { j \in 1..Len(rules) : rules[j].name = n } }]
RECURSIVE FixT(_, _), FixL(_, _)
FixT(rules, env) == LET e2 == StepT(rules, env) IN IF e2 = env THEN env ELSE FixT(rules, e2)
FixL(prods, env) == LET e2 == StepL(prods, env) IN IF e2 = env THEN env ELSE FixL(prods, e2)
GrammarOk(c) == ~c.specok \/
                LET D == FixT(TRules(c), Bottom(RuleNames(TRules(c))))
                    L == FixL(c.prods, Bottom(NTsOf(c.prods) \cup RuleNames(TRules(c))))
                IN \A n \in DOMAIN D : D[n] = L[n]

VARIABLES lvl, k
vars == <<lvl, k>>
Init == lvl = 0 /\ k = 0
Min(a, b) == IF a < b THEN a ELSE b
Next == \/ lvl = 0 /\ lvl' = 1 /\ k' \in 0..((N - 1) \div Chunk)
        \/ lvl = 1 /\ lvl' = 2 /\ k' \in (k * Chunk + 1)..Min((k + 1) * Chunk, N)
Spec == Init /\ [][Next]_vars
Rep(tag, c) == PrintT(tag \o " " \o ToJson([id |-> c.id]))
Check(c) == /\ GenericOk(c) \/ Rep("GENERIC", c)
            /\ TypedOk(c) \/ Rep("TYPED", c)
            /\ TPosOk(c) \/ Rep("TYPEDPOS", c)
            /\ (c.typerr = "" => (c.rtsame /\ c.rtequal)) \/ Rep("ROUNDTRIP", c)
            /\ (c.typerr # "" \/ c.fam = "F11" \/ GrammarOk(c)) \/ Rep("GRAMMAR", c)   \* (F11: very long / deep constructs, trees only)
Inv == lvl = 2 => Check(Cases[k])
=============================================================================
