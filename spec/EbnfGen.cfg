CONSTANT K = 4
CONSTANT MaxSize = 4
CONSTANT ShareSize = 2
