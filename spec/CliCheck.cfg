SPECIFICATION Spec
INVARIANT Inv
CHECK_DEADLOCK FALSE
