SPECIFICATION Spec
CONSTANT Procs = {1, 2}
CONSTANT Shared = TRUE
INVARIANT Pure
CHECK_DEADLOCK FALSE
