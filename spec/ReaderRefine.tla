---------------------------- MODULE ReaderRefine ----------------------------
(* Design-level check for C13 / C19: the implementation-shaped two-buffer
   reader (TwoBuffer.tla) in lock-step with the reader contract
   (IdealReader.tla), for EVERY source of at most MaxRunes runes over Kinds
   and EVERY sequence of client operations that respects the two-buffer
   contract (a lexeme plus its lookahead never exceeds one half; for the
   template as emitted now, Variant = "emit", lexemes of ANY length).
   Invariant: both return the same value for every operation.
   With Variant = "dep" TLC produces the histories on which the dependency's
   reader loses input (known finding READER-DEP); with Variant = "fixed" the
   invariant holds, which is the design argument for the repaired template. *)
EXTENDS TwoBuffer, IdealReader, TLC

CONSTANTS MaxRunes, Kinds

VARIABLES src, st, cur, beg, ret, iret, hist
vars == <<src, st, cur, beg, ret, iret, hist>>
View == <<src, st, cur, beg, ret, iret>>

Sources == UNION { [1..n -> Kinds] : n \in 0..MaxRunes }

Init == /\ src \in Sources
        /\ ~NewFails(src)
        /\ st = NewInput(src)
        /\ cur = 0 /\ beg = 0
        /\ ret = <<"init">> /\ iret = <<"init">> /\ hist = <<>>

\* byte ids of runes a+1..b
IdsOf(a, b) == LET RECURSIVE F(_) F(j) == IF j > b THEN <<>> ELSE [k \in 1..Size(src[j]) |-> <<j, k>>] \o F(j + 1) IN F(a + 1)
Norm(r) == IF r[1] = "lexeme" THEN <<"lexeme", IdsOf(beg, cur), r[3]>> ELSE r

\* the client contract of the two-buffer scheme
\* ("dep", "fixed": a lexeme plus its lookahead never exceeds one half; "emit": only a single rune must fit into a half)
CanNext == IF Variant = "emit" THEN (cur < Len(src) => Size(src[cur + 1]) <= N)
           ELSE PendingBytes(st) + (IF cur < Len(src) THEN Size(src[cur + 1]) ELSE 1) <= N

\* "emit": lexemes are unbounded, so only the rune read last is certainly still in the buffer and may be given back
\* (all the emitted lexer ever does).  TLC found the history that breaks anything more liberal: N = 2, source of two
\* 2-byte runes, Next Next Retract Retract Next - the second Retract returns into a half that was reloaded meanwhile.
CanRetract == \/ Variant # "emit"
              \/ (hist # <<>> /\ hist[Len(hist)] = "Next" /\ ret[1] = "rune")

Do(op) == LET a == Apply(op, src, st)
              b == IApply(op, src, cur, beg)
          IN /\ st' = a.st /\ ret' = a.ret
             /\ cur' = b.cur /\ beg' = b.beg /\ iret' = Norm(b.ret)
             /\ hist' = Append(hist, op) /\ src' = src

Next == /\ ret = iret                 \* a diverged behaviour is reported once and not continued
        /\ \/ (CanNext /\ Do("Next"))
           \/ (CanRetract /\ Do("Retract")) \/ Do("Lexeme") \/ Do("Skip")
Spec == Init /\ [][Next]_vars

Refines == ret = iret
=============================================================================
