----------------------------- MODULE EbnfLexDet -----------------------------
(* Determinises the reference token automaton of EbnfLexRef ONCE (TLC evaluates
   the closure of the initial tuple of residual-term sets under all symbol
   classes) and writes it to refdfa.json, so that the stream-level trace
   specifications can follow it by table lookup.  Every set of the token table
   lies inside Sigma; any other code point kills every definition.          *)
EXTENDS EbnfLexRef, SequencesExt

NDefs == Len(LexDefs)
InitRefs == [i \in 1..NDefs |-> {LexDefs[i].term}]
StepAll(rs, cp) == [i \in 1..NDefs |-> StepRef(rs[i], cp)]
Matching(rs) == { i \in 1..NDefs : RefAcc(rs[i]) }
IsLit(i) == LexDefs[i].kind = "str"
WinnerOf(S) == IF S = {} THEN 0
               ELSE IF Cardinality(S) = 1 THEN CHOOSE i \in S : TRUE
               ELSE LET L == { i \in S : IsLit(i) } IN IF Cardinality(L) = 1 THEN CHOOSE i \in L : TRUE ELSE -1

Sigma == {9, 10, 13} \cup (32..126)
AllSets == UNION { SetsOfT(LexDefs[i].term) : i \in 1..NDefs }
Sig(a) == { f \in AllSets : InSet(f, a) }
Sigs == SetToSeq({ Sig(a) : a \in Sigma })
NC == Len(Sigs)
RepOf(j) == CHOOSE a \in Sigma : Sig(a) = Sigs[j]
ClsOf(a) == CHOOSE j \in 1..NC : Sigs[j] = Sig(a)
Dead == [i \in 1..NDefs |-> {}]

RECURSIVE Close(_, _, _)
Close(done, todo, reps) == IF todo = {} THEN done
                           ELSE LET new == { StepAll(s, a) : s \in todo, a \in reps } \ (done \cup todo)
                                IN Close(done \cup todo, new, reps)

Build ==
  LET sigs == Sigs
      nc == Len(sigs)
      reps == [j \in 1..nc |-> CHOOSE a \in Sigma : Sig(a) = sigs[j]]
      states == Close({}, {InitRefs, Dead}, { reps[j] : j \in 1..nc })
      seq == <<InitRefs>> \o SetToSeq(states \ {InitRefs})
      idx(s) == CHOOSE k \in 1..Len(seq) : seq[k] = s
  IN [ cls   |-> [a \in 1..126 |-> IF a \in Sigma THEN CHOOSE j \in 1..nc : sigs[j] = Sig(a) ELSE 0],
       delta |-> [k \in 1..Len(seq) |-> [j \in 1..nc |-> idx(StepAll(seq[k], reps[j]))]],
       win   |-> [k \in 1..Len(seq) |-> WinnerOf(Matching(seq[k]))],
       dead  |-> idx(Dead),
       names |-> [i \in 1..NDefs |-> LexDefs[i].name] ]

ASSUME LET b == Build IN JsonSerialize("refdfa.json", b) /\ PrintT(<<"DETERMINISED", Len(b.delta), "states">>)
=============================================================================
