----------------------------- MODULE RegexGen -----------------------------
(* Generator of the pattern case space of C02 / C10 / C09(b): TLC evaluates
   the finite sets below and writes them as ndjson; the Go harness prints each
   term in unambiguous concrete syntax and feeds it to the real code.
   Families
     F1  every term of size <= MaxSize over {a, b, .}, grouping, concatenation,
         alternation and a basic quantifier set
     F2  every quantifier form (incl. lazy) on a set of operand shapes, alone and in context
     F3  every named class individually, in five contexts
     F4  every escaped metacharacter and every \xHH (01..7F), selected \xHHHH
     F5  bracket groups: items, ranges, classes, negation
     F6  the predefined $NAME patterns (hand-transcribed meaning)
     F8  nullable operands inside n-ary concatenations, epsilon-matching patterns (C10 emphasis) *)
EXTENDS Integers, Sequences, FiniteSets, TLC, Json, SequencesExt, Regex

CONSTANT MaxSize

A == Lit(97)
B == Lit(98)
C == Lit(99)
Dot == SetF(<<AnyI>>, FALSE)
Atoms == {A, B, Dot}

\* basic quantifiers for the structural family: <<lo, hi, syn>>
Q1 == { <<0, 1, "q">>, <<0, -1, "star">>, <<1, -1, "plus">>, <<2, 2, "n">>, <<1, -1, "n_">>, <<1, 2, "nm">> }
\* every form
QAll == { <<0, 1, "q">>, <<0, -1, "star">>, <<1, -1, "plus">> }
        \cup { <<n, n, "n">> : n \in 0..3 }
        \cup { <<n, -1, "n_">> : n \in 0..3 }
        \cup { <<p[1], p[2], "nm">> : p \in { r \in (0..3) \X (0..3) : r[1] <= r[2] } }

RECURSIVE Factors(_), Terms(_)
Factors(n) ==
  IF n = 1 THEN Atoms
  ELSE { AltF(<<t>>) : t \in Terms(n - 1) }
       \cup { RepF(t, q[1], q[2], q[3], FALSE) : t \in Terms(n - 1), q \in Q1 }
       \cup UNION { { AltF(<<t1, t2>>) : t1 \in Terms(i), t2 \in Terms(n - 1 - i) } : i \in 1..(n - 2) }
Terms(n) ==
  { <<f>> : f \in Factors(n) }
  \cup UNION { { <<f>> \o t : f \in Factors(i), t \in Terms(n - i) } : i \in 1..(n - 1) }

Case(fam, t, top, predef) == [fam |-> fam, term |-> t, top |-> top, predef |-> predef, anchor |-> ""]
\* a leading ^ / trailing $ anchor is a no-op for a token pattern (a token is matched as a whole string)
ACase(t, a) == [fam |-> "F9", term |-> t, top |-> FALSE, predef |-> "", anchor |-> a]

F1 == UNION { { Case("F1", t, FALSE, "") : t \in Terms(n) } : n \in 1..MaxSize }
\* top-level alternation written without parentheses
F1top == { Case("F1", <<AltF(<<t1, t2>>)>>, TRUE, "") : t1 \in Terms(1) \cup Terms(2), t2 \in Terms(1) \cup Terms(2) }

Operands == { <<A>>, <<A, B>>, <<AltF(<< <<A>>, <<B>> >>)>>, <<RepF(<<A>>, 0, 1, "q", FALSE)>>, <<Dot>> }
F2 == { Case("F2", <<RepF(t, q[1], q[2], q[3], lz)>>, FALSE, "") : t \in Operands, q \in QAll, lz \in BOOLEAN }
      \cup { Case("F2", <<A, RepF(t, q[1], q[2], q[3], lz), B>>, FALSE, "") : t \in Operands, q \in QAll, lz \in BOOLEAN }

ClsF(n) == SetF(<<Cls(n)>>, FALSE)
F3 == UNION { { Case("F3", <<ClsF(n)>>, FALSE, ""),
                Case("F3", <<A, ClsF(n), B>>, FALSE, ""),
                Case("F3", <<RepF(<<ClsF(n)>>, 0, -1, "star", FALSE)>>, FALSE, ""),
                Case("F3", <<SetF(<<Cls(n), Ch(97)>>, FALSE)>>, FALSE, ""),
                Case("F3", <<SetF(<<Cls(n)>>, TRUE)>>, FALSE, "") } : n \in ClassNames }

Escaped == {92, 124, 46, 63, 42, 43, 40, 41, 91, 93, 123, 125, 36}
F4 == { Case("F4", <<Lit(c)>>, FALSE, "") : c \in 1..127 }
      \cup { Case("F4", <<A, Lit(c), B>>, FALSE, "") : c \in 1..127 }
      \cup { Case("F4", <<RepF(<<Lit(c)>>, 1, -1, "plus", FALSE)>>, FALSE, "") : c \in Escaped }
      \cup { Case("F4", <<SetF(<<Ch(c), Ch(97)>>, FALSE)>>, FALSE, "") : c \in Escaped \cup {94, 45, 58} }
      \cup { Case("F4", <<Lit(c)>>, FALSE, "") : c \in {233, 20013, 128512} }
      \cup { Case("F4", <<A, Lit(c), RepF(<<Lit(c)>>, 0, 1, "q", FALSE)>>, FALSE, "") : c \in {233, 20013, 128512} }

F5 == { Case("F5", <<SetF(s, ng)>>, FALSE, "") :
          s \in { <<Ch(97), Ch(98)>>, <<Rng(97, 99)>>, <<Rng(97, 99), Rng(120, 122)>>, <<Ch(97)>>,
                  <<Cls("d"), Ch(95)>>, <<Cls("alpha"), Ch(95)>>, <<Cls("digit"), Ch(97)>>,
                  <<Ch(93), Ch(92), Ch(45)>>, <<Rng(48, 57), Rng(65, 70)>>, <<Cls("D"), Ch(53)>>,
                  <<Rng(33, 47)>>, <<Rng(1, 31)>>, <<Ch(9), Ch(10), Ch(13), Ch(32)>>,
                  <<Rng(97, 97)>>, <<Cls("s"), Cls("w")>>, <<Cls("upper"), Cls("lower"), Cls("digit")>>,
                  \* the last ASCII code point, alone, as the end of a range and through negated classes
                  <<Ch(127)>>, <<Rng(32, 127)>>, <<Rng(126, 127), Ch(97)>>, <<Cls("W")>>, <<Cls("S")>>, <<Cls("D")>> },
          ng \in BOOLEAN }
      \cup { Case("F5", <<A, SetF(<<Rng(97, 99)>>, ng), RepF(<<SetF(<<Rng(48, 57)>>, ng)>>, 0, -1, "star", FALSE)>>, FALSE, "") : ng \in BOOLEAN }
      \cup { Case("F5", <<SetF(<<Rng(224, 233)>>, FALSE)>>, FALSE, ""), Case("F5", <<SetF(<<Ch(233), Ch(97)>>, FALSE)>>, FALSE, "") }

\* ---- F6: predefined patterns; meaning transcribed by hand ----
Star(t) == RepF(t, 0, -1, "star", FALSE)
Plus(t) == RepF(t, 1, -1, "plus", FALSE)
Opt(t)  == RepF(t, 0, 1, "q", FALSE)
Printable == <<Ch(9), Rng(32, 126)>>
StrBody == AltF(<< <<SetF(<<Ch(33), Rng(35, 91), Rng(93, 126)>>, FALSE)>>, <<Lit(92), SetF(<<Rng(33, 126)>>, FALSE)>> >>)
F6 == { Case("F6", <<SetF(<<Ch(9), Ch(10), Ch(13), Ch(32)>>, FALSE)>>, FALSE, "$WS"),
        Case("F6", <<SetF(<<Rng(48, 57)>>, FALSE)>>, FALSE, "$DIGIT"),
        Case("F6", <<SetF(<<Rng(65, 90), Rng(97, 122)>>, FALSE)>>, FALSE, "$LETTER"),
        Case("F6", <<SetF(<<Rng(65, 90), Rng(97, 122), Ch(95)>>, FALSE),
                     Star(<<SetF(<<Rng(48, 57), Rng(65, 90), Rng(97, 122), Ch(95)>>, FALSE)>>)>>, FALSE, "$ID"),
        Case("F6", <<Opt(<<Lit(45)>>), Plus(<<SetF(<<Rng(48, 57)>>, FALSE)>>),
                     Opt(<<Lit(46), Plus(<<SetF(<<Rng(48, 57)>>, FALSE)>>)>>)>>, FALSE, "$NUMBER"),
        Case("F6", <<Lit(34), Plus(<<StrBody>>), Lit(34)>>, FALSE, "$STRING"),
        Case("F6", <<AltF(<< <<AltF(<< <<Lit(35)>>, <<Lit(47), Lit(47)>> >>), Star(<<SetF(Printable, FALSE)>>)>>,
                             <<Lit(47), Lit(42), Star(<<SetF(<<Ch(9), Ch(10), Ch(13), Rng(32, 126)>>, FALSE)>>), Lit(42), Lit(47)>> >>)>>,
             TRUE, "$COMMENT") }

\* ---- F8: nullable operands inside concatenations, epsilon patterns, cloned ranges ----
Nullables == { Opt(<<A>>), Star(<<A>>), Opt(<<B>>), Star(<<B>>), RepF(<<A>>, 0, 2, "nm", FALSE),
               AltF(<< <<Opt(<<A>>)>>, <<B>> >>), Opt(<<A, B>>), AltF(<< <<Opt(<<A>>), Opt(<<B>>)>> >>) }
F8 == { Case("F8", <<x, n, y>>, FALSE, "") : x \in {A, B}, n \in Nullables, y \in {A, C} }
      \cup { Case("F8", <<n1, n2>>, FALSE, "") : n1 \in Nullables, n2 \in Nullables }
      \cup { Case("F8", <<n1, n2, C>>, FALSE, "") : n1 \in Nullables, n2 \in Nullables }
      \cup { Case("F8", <<A, n1, n2, C>>, FALSE, "") : n1 \in Nullables, n2 \in Nullables }
      \cup { Case("F8", <<n>>, FALSE, "") : n \in Nullables }
      \cup { Case("F8", <<RepF(<<A, Opt(<<B>>)>>, q[1], q[2], q[3], FALSE), C>>, FALSE, "") : q \in QAll }
      \cup { Case("F8", <<AltF(<< <<n>> >>), C>>, FALSE, "") : n \in Nullables }

F9 == { ACase(t, a) : t \in Terms(1) \cup Terms(2) \cup { <<Lit(105), Lit(102)>>, <<Lit(94), A>>, <<A, Lit(94), B>>, <<Lit(36)>> }, a \in {"^", "$", "^$"} }

\* ---- F10: the same class (or the same operand) occurring several times in one pattern, unquantified, quantified and
\* mixed: every occurrence is a position of its own ----
F10 == UNION { { Case("F10", <<ClsF(n), ClsF(n)>>, FALSE, ""),
                 Case("F10", <<ClsF(n), A, ClsF(n)>>, FALSE, ""),
                 Case("F10", <<ClsF(n), ClsF(m), ClsF(n)>>, FALSE, ""),
                 Case("F10", <<AltF(<< <<ClsF(n)>>, <<B>> >>), Lit(45), AltF(<< <<ClsF(n)>>, <<B>> >>)>>, FALSE, ""),
                 Case("F10", <<ClsF(n), RepF(<<ClsF(n)>>, 0, -1, "star", FALSE), ClsF(n)>>, FALSE, ""),
                 Case("F10", <<RepF(<<ClsF(n), ClsF(n)>>, 2, 2, "n", FALSE)>>, FALSE, ""),
                 Case("F10", <<SetF(<<Cls(n), Ch(45)>>, FALSE), SetF(<<Cls(n), Ch(45)>>, FALSE)>>, FALSE, "") }
               : n \in {"d", "w", "s", "digit", "alpha", "xdigit"}, m \in {"w", "d"} }
       \cup { Case("F10", <<Dot, Dot>>, FALSE, ""), Case("F10", <<Dot, A, Dot>>, FALSE, ""), Case("F10", <<A, A>>, FALSE, ""),
              Case("F10", <<AltF(<< <<A>>, <<B>> >>), AltF(<< <<A>>, <<B>> >>)>>, FALSE, "") }

\* ---- F12: Unicode categories in both polarities, alone, together in either order, in a group, repeated (ASCII words only) ----
\* Only the letter categories: their tables are filled in (ASCII letters).  The tables of every other category are empty or
\* whole blocks in the code, under a "TODO: Unicode Classes" comment, and the documentation gives names only - nothing is
\* asserted about them (DESIGN.md, limits).
UniSafe == {"Lu", "Ll", "L", "Letter"}
PU(x) == ClsF("p:" \o x)
NU(x) == ClsF("P:" \o x)
F12 == UNION { { Case("F12", <<PU(x)>>, FALSE, ""), Case("F12", <<NU(x)>>, FALSE, ""),
                 Case("F12", <<PU(x), NU(x)>>, FALSE, ""), Case("F12", <<NU(x), PU(x)>>, FALSE, ""),
                 Case("F12", <<SetF(<<Cls("p:" \o x), Ch(97)>>, FALSE)>>, FALSE, ""),
                 Case("F12", <<A, RepF(<<PU(x)>>, 1, -1, "plus", FALSE), B>>, FALSE, "") } : x \in UniSafe }

\* ---- F13: nullable repetitions nested in nullable repetitions, behind an optional prefix ----
Pre13 == { <<>>, <<Opt(<<B>>)>>, <<Star(<<B>>)>>, <<A, Opt(<<B>>)>>, <<Opt(<<C>>)>> }
In13 == { <<Star(<<A>>)>>, <<Opt(<<A>>)>>, <<Opt(<<A>>), Opt(<<B>>)>>, <<RepF(<<A>>, 1, -1, "plus", FALSE)>>, <<AltF(<< <<A>>, <<Star(<<B>>)>> >>)>> }
Out13(t) == { Star(t), RepF(t, 1, -1, "plus", FALSE), Opt(t), RepF(t, 2, -1, "n_", FALSE), RepF(t, 0, 2, "nm", FALSE) }
F13 == { Case("F13", p \o <<o>>, FALSE, "") : p \in Pre13, o \in UNION { Out13(i) : i \in In13 } }
       \cup { Case("F13", <<AltF(<< <<A>>, <<o>> >>)>>, FALSE, "") : o \in UNION { Out13(i) : i \in In13 } }

\* ---- F14: a top-level alternation of one word with several optional letters and two plain words over {a, b}:
\*      positions whose follow sets are built by several appends and are shared by different states of the direct construction
Elems14 == {A, B, Opt(<<A>>), Opt(<<B>>)}
Rich14(w) == Cardinality({ i \in 1..Len(w) : w[i] \notin {A, B} }) >= 2
Opt14 == { w \in { <<x, y, z>> : x \in Elems14, y \in Elems14, z \in Elems14 } : Rich14(w) }
         \cup { w \in { <<x, y, z, u>> : x \in Elems14, y \in Elems14, z \in Elems14, u \in Elems14 } : Rich14(w) }
Plain14 == { <<x, y>> : x \in {A, B}, y \in {A, B} } \cup { <<x, y, z>> : x \in {A, B}, y \in {A, B}, z \in {A, B} }
F14 == { Case("F14", <<AltF(<<w, p, q>>)>>, TRUE, "") : w \in Opt14, p \in Plain14, q \in Plain14 }

All == F14 \cup F13 \cup F12 \cup F10 \cup F9 \cup F1 \cup F1top \cup F2 \cup F3 \cup F4 \cup F5 \cup F6 \cup F8

ASSUME /\ ndJsonSerialize("gen_cases.ndjson", SetToSeq(All))
       /\ PrintT(<<"GENERATED", Cardinality(All), "F1", Cardinality(F1) + Cardinality(F1top), "F2", Cardinality(F2),
                   "F3", Cardinality(F3), "F4", Cardinality(F4), "F5", Cardinality(F5), "F6", Cardinality(F6), "F8", Cardinality(F8)>>)
=============================================================================
