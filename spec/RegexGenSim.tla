---------------------------- MODULE RegexGenSim ----------------------------
(* Term-builder state machine: its behaviours under `tlc -simulate -seed S`
   are the seeded random larger patterns of C02/C10 (family F7).  Every state
   with at least MinSteps construction steps prints its term.               *)
EXTENDS Integers, Sequences, FiniteSets, TLC, Json, Regex

MinSteps == 5
MaxSteps == 12

Atoms == { Lit(97), Lit(98), Lit(99), SetF(<<AnyI>>, FALSE), SetF(<<Cls("d")>>, FALSE),
           SetF(<<Rng(97, 99)>>, FALSE), SetF(<<Ch(97)>>, TRUE), SetF(<<Cls("w"), Ch(45)>>, FALSE),
           Lit(45), Lit(46), Lit(92) }
Quants == { <<0, 1, "q">>, <<0, -1, "star">>, <<1, -1, "plus">>, <<2, 2, "n">>, <<0, 0, "n">>, <<3, 3, "n">>,
            <<0, -1, "n_">>, <<2, -1, "n_">>, <<0, 2, "nm">>, <<1, 3, "nm">>, <<2, 3, "nm">>, <<1, 1, "nm">> }

\* rough size of the automaton a term unfolds to; bounds the blow-up of nested repetition ranges
RECURSIVE WeightT(_), WeightF(_), SumW(_, _)
WeightF(f) == CASE f.k = "set" -> 1
                [] f.k = "alt" -> 1 + SumW(f.a, Len(f.a))
                [] f.k = "rep" -> 1 + WeightT(f.t) * (IF f.hi > f.lo THEN f.hi ELSE IF f.lo > 0 THEN f.lo + (IF f.hi = -1 THEN 1 ELSE 0) ELSE 1)
SumW(a, i) == IF i = 0 THEN 0 ELSE WeightT(a[i]) + SumW(a, i - 1)
WeightT(t) == IF t = <<>> THEN 0 ELSE WeightF(Head(t)) + WeightT(Tail(t))
MaxWeight == 40

VARIABLES t, n
vars == <<t, n>>

Init == t \in { <<a>> : a \in Atoms } /\ n = 1

Append_   == \E a \in Atoms : t' = Append(t, a)
Prepend_  == \E a \in Atoms : t' = <<a>> \o t
RepLast   == \E q \in Quants, lz \in BOOLEAN :
               t' = SubSeq(t, 1, Len(t) - 1) \o <<RepF(<<t[Len(t)]>>, q[1], q[2], q[3], lz)>>
RepAll    == \E q \in Quants, lz \in BOOLEAN : t' = <<RepF(t, q[1], q[2], q[3], lz)>>
GroupAll  == t' = <<AltF(<<t>>)>>
AltAtom   == \E a \in Atoms : t' = <<AltF(<<t, <<a>>>>)>>
AltSplit  == Len(t) >= 2 /\ \E i \in 1..(Len(t) - 1) : t' = <<AltF(<<SubSeq(t, 1, i), SubSeq(t, i + 1, Len(t))>>)>>
Nest      == Len(t) >= 2 /\ \E i \in 1..(Len(t) - 1), q \in Quants :
               t' = SubSeq(t, 1, i) \o <<RepF(SubSeq(t, i + 1, Len(t)), q[1], q[2], q[3], FALSE)>>

Next == /\ n < MaxSteps
        /\ n' = n + 1
        /\ (Append_ \/ Prepend_ \/ RepLast \/ RepAll \/ GroupAll \/ AltAtom \/ AltSplit \/ Nest)
        /\ WeightT(t') <= MaxWeight
Spec == Init /\ [][Next]_vars

Emit == n >= MinSteps => PrintT("TERM " \o ToJson([term |-> t]))
=============================================================================
