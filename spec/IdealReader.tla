----------------------------- MODULE IdealReader -----------------------------
(* The contract of the input reader (lexer/input of the dependency, and its
   copy in templates/input.go.tmpl): a cursor over a sequence of runes.
     Next     returns the rune under the cursor and advances, or EOF
     Retract  moves the cursor back by one rune, not before the lexeme start
     Lexeme   returns the runes between the lexeme start and the cursor with
              the position of the first one, and starts a new lexeme
     Skip     the same without the text
   A position is <<offset, line, column>>: offset counts runes from 0, lines
   and columns count from 1, a line ends with LF (code point 10).
   Operators are pure: state is <<cur, beg>> = runes consumed / runes before
   the current lexeme.                                                      *)
EXTENDS Integers, Sequences, FiniteSets

LFsBefore(src, k) == { j \in 1..k : src[j] = 10 }
MaxOf(S) == CHOOSE x \in S : \A y \in S : y <= x
PosAt(src, k) == <<k, 1 + Cardinality(LFsBefore(src, k)),
                   IF LFsBefore(src, k) = {} THEN k + 1 ELSE k + 1 - MaxOf(LFsBefore(src, k))>>

\* each operator returns [cur, beg, ret]
INext(src, cur, beg) ==
  IF cur < Len(src) THEN [cur |-> cur + 1, beg |-> beg, ret |-> <<"rune", src[cur + 1]>>]
  ELSE [cur |-> cur, beg |-> beg, ret |-> <<"eof">>]
IRetract(src, cur, beg) ==
  [cur |-> IF cur > beg THEN cur - 1 ELSE cur, beg |-> beg, ret |-> <<"ok">>]
ILexeme(src, cur, beg) ==
  [cur |-> cur, beg |-> cur, ret |-> <<"lexeme", SubSeq(src, beg + 1, cur), PosAt(src, beg)>>]
ISkip(src, cur, beg) ==
  [cur |-> cur, beg |-> cur, ret |-> <<"pos", PosAt(src, beg)>>]

IApply(op, src, cur, beg) ==
  CASE op = "Next" -> INext(src, cur, beg)
    [] op = "Retract" -> IRetract(src, cur, beg)
    [] op = "Lexeme" -> ILexeme(src, cur, beg)
    [] op = "Skip" -> ISkip(src, cur, beg)
=============================================================================
