------------------------------ MODULE GenStream ------------------------------
(* C19.  Trace validation of the COMPILED emitted lexer: gstreams.ndjson holds,
   per (specification, input text, reader size), the token stream the emitted
   NextToken produced, together with the token automaton emerge computed for
   that specification (delta, owner).  The reference is the documented
   behaviour: from each token start follow the automaton for the longest run
   it allows (spaces, tabs, LF and CR that have no transition from the start
   state are discarded first); the run is a token of the terminal owning the
   state reached, skipped if that terminal is named WS, EOL or COMMENT, and a
   lexical error at its first character if the state is not accepting; after
   the last token comes end of input.  Lexeme, offset (in characters), line and
   column must be exact.                                                    *)
EXTENDS Integers, Sequences, FiniteSets, TLC, Json

Cases == ndJsonDeserialize("gstreams.ndjson")
Autos == ndJsonDeserialize("gautos.ndjson")      \* one automaton per specification

VARIABLES c, p, i, st
vars == <<c, p, i, st>>
Txt == Cases[c].cps
Rec == Cases[c].toks
A == Autos[Cases[c].auto]
Skipped == {"WS", "EOL", "COMMENT"}
Blank == {32, 9, 10, 13}

StepA(s, cp) == LET k == ToString(cp) IN IF s >= 0 /\ k \in DOMAIN A.delta[s + 1] THEN A.delta[s + 1][k] ELSE -1
RECURSIVE Run(_, _)
Run(q, s) == IF q > Len(Txt) THEN <<q, s>> ELSE LET s2 == StepA(s, Txt[q]) IN IF s2 # -1 THEN Run(q + 1, s2) ELSE <<q, s>>
RECURSIVE RefNext(_)
RefNext(q) ==
  IF q > Len(Txt) THEN [k |-> "EOF", b |-> q, e |-> q]
  ELSE IF StepA(0, Txt[q]) = -1 /\ Txt[q] \in Blank THEN RefNext(q + 1)          \* unmatched whitespace is discarded
  ELSE LET r == Run(q, 0)  own == A.owner[r[2] + 1] IN
       IF r[1] = q \/ own = "" THEN [k |-> "ERR", b |-> q, e |-> r[1]]
       ELSE IF own \in Skipped THEN RefNext(r[1])
       ELSE [k |-> own, b |-> q, e |-> r[1]]
NLBefore(q) == { j \in 1..(q - 1) : Txt[j] = 10 }
LineOf(q) == 1 + Cardinality(NLBefore(q))
MaxOf(S) == CHOOSE x \in S : \A y \in S : y <= x
ColOf(q) == IF NLBefore(q) = {} THEN q ELSE q - MaxOf(NLBefore(q))

Init == c \in 1..Len(Cases) /\ p = 1 /\ i = 0 /\ st = "run"
TokOk(t, r) == /\ t.k = r.k /\ SubSeq(Txt, t.b, t.e - 1) = r.lx
               /\ r.off = t.b - 1 /\ r.ln = LineOf(t.b) /\ r.col = ColOf(t.b)
Consume == /\ st = "run" /\ i < Len(Rec)
           /\ LET t == RefNext(p) IN
              IF t.k \notin {"EOF", "ERR"} /\ TokOk(t, Rec[i + 1]) THEN p' = t.e /\ i' = i + 1 /\ st' = "run"
              ELSE p' = p /\ i' = i /\ st' = "bad"
           /\ c' = c
Finish == /\ st = "run" /\ i = Len(Rec)
          /\ LET t == RefNext(p) IN
             st' = IF \/ (Cases[c].end = "eof" /\ t.k = "EOF")
                      \/ (Cases[c].end = "err" /\ t.k = "ERR" /\ Cases[c].eln = LineOf(t.b) /\ Cases[c].ecol = ColOf(t.b))
                   THEN "done" ELSE "bad"
          /\ UNCHANGED <<c, p, i>>
Next == Consume \/ Finish
Spec == Init /\ [][Next]_vars
Expect == LET t == RefNext(p) IN [id |-> Cases[c].id, i |-> i, k |-> t.k, b |-> t.b, e |-> t.e,
                                  lx |-> IF t.k \in {"EOF", "ERR"} THEN <<>> ELSE SubSeq(Txt, t.b, t.e - 1), ln |-> LineOf(t.b), col |-> ColOf(t.b)]
Inv == st = "bad" => PrintT("MISMATCH " \o ToJson(Expect))
=============================================================================
