----------------------------- MODULE SpecPoolGen -----------------------------
(* Generator for C07: every sequence of at most MaxDecls distinct declarations
   from a pool seeded with every listed defect (token used but not defined,
   defined twice, two terminals with one value, unknown predefined name,
   invalid pattern, non-terminal without production, no start rule, handle in
   two precedence levels) and their well-formed counterparts, in EVERY order. *)
EXTENDS Ebnf, TLC, Json, SequencesExt

CONSTANT MaxDecls

ID  == TTok("ID")
NUM == TTok("NUM")
KW  == TTok("KW")
IfS == TStr("if")
Pool == <<
  Tok("ID", "pre", "$ID"),                                   \*  1
  Tok("NUM", "pat", "[0-9]+"),                               \*  2
  Tok("KW", "str", "if"),                                    \*  3
  Tok("KW", "str", "then"),                                  \*  4  second definition of KW
  Tok("IFF", "str", "if"),                                   \*  5  same value as KW (3) / as the literal "if"
  Tok("BAD", "pre", "$BOGUS"),                               \*  6  unknown predefined name
  Tok("BADP", "pat", "[9-0]"),                               \*  7  invalid pattern (descending range)
  Tok("BADQ", "pat", "a{2,1}"),                              \*  8  invalid pattern (min > max)
  Rule("start", Cat(ID, NUM)),                               \*  9
  Rule("start", Cat(KW, NT("x"))),                           \* 10
  Rule("x", Cat(IfS, ID)),                                   \* 11
  Rule("start", Cat(TTok("BADP"), TTok("BADQ"))),            \* 12
  Rule("start", Alt(TTok("UNDEF"), TTok("BAD"))),            \* 13  UNDEF is never defined
  Rule("start", Cat(NT("w"), TTok("IFF"))),                  \* 14  w has no production
  Dir("left", <<HTerm("if", TRUE), HTerm("ID", FALSE)>>),    \* 15
  Dir("right", <<HTerm("ID", FALSE)>>),                      \* 16  ID again
  Dir("none", <<HRule("x", Cat(IfS, ID))>>),                 \* 17
  Dir("left", <<HRule("x", Cat(IfS, ID)), HTerm("NUM", FALSE)>>)  \* 18  the production of 17 again
>>

Idx == 1..Len(Pool)
\* all injective sequences over Idx of length <= MaxDecls
RECURSIVE Perms(_)
Perms(n) == IF n = 0 THEN {<<>>}
            ELSE LET r == Perms(n - 1) IN r \cup { Append(p, i) : p \in { q \in r : Len(q) = n - 1 }, i \in Idx }
Inj(p) == \A a, b \in 1..Len(p) : a # b => p[a] # p[b]
Seqs == { p \in Perms(MaxDecls) : Inj(p) }

\* ---- family B: a well-formed base with extra declarations inserted and at most one base declaration removed ----
IffS == TStr("iff")
Base == << Tok("ID", "pre", "$ID"), Tok("NUM", "pat", "[0-9]+"), Tok("KW", "str", "if"),
           Rule("start", Cat(KW, NT("x"))), Rule("x", Cat(Cat(IffS, ID), NUM)) >>
Extras == <<
  Tok("KW", "str", "then"),                                      \* KW defined twice
  Tok("IFF", "str", "if"),                                       \* same value as KW
  Tok("IFS", "str", "iff"),                                      \* same value as the literal "iff"
  Tok("BAD", "pre", "$BOGUS"),
  Tok("BADP", "pat", "[9-0]"),
  Rule("y", TTok("UNDEF")),
  Rule("z", NT("w")),
  Dir("left", <<HTerm("iff", TRUE), HTerm("ID", FALSE)>>),
  Dir("right", <<HTerm("ID", FALSE)>>),
  Dir("none", <<HRule("x", Cat(Cat(IffS, ID), NUM))>>),
  Dir("left", <<HRule("x", Cat(Cat(IffS, ID), NUM)), HTerm("NUM", FALSE)>>),
  Tok("WS", "pre", "$WS"),
  Tok("STR", "pre", "$STRING"),
  Rule("x", TStr("other")),
  Rule("start", TAlt(NT("x"))),
  Dir("right", <<HTerm("KW", FALSE), HTerm("other", TRUE)>>)
>>
CONSTANT MaxExtra
Slots == {0, 2, 5}         \* an extra goes before the base, in its middle, or after it
\* insert the extras e (a sequence) with their slots (a sequence of the same length) into b
Weave(b, e, sl) ==
  LET RECURSIVE W(_) W(p) ==          \* declarations from base position p on
        LET here == LET RECURSIVE H(_) H(j) == IF j > Len(e) THEN <<>> ELSE (IF sl[j] = p THEN <<e[j]>> ELSE <<>>) \o H(j + 1) IN H(1)
        IN IF p > Len(Base) THEN here ELSE here \o (IF p >= 1 /\ b[p] THEN <<Base[p]>> ELSE <<>>) \o W(p + 1)
  IN W(0)
EIdx == 1..Len(Extras)
ESeqs == { q \in UNION { [1..n -> EIdx] : n \in 0..MaxExtra } : \A a, b \in 1..Len(q) : a # b => q[a] # q[b] }
Keep == { [i \in 0..Len(Base) |-> i # d] : d \in 0..Len(Base) }     \* d = 0 keeps everything
FamB == UNION { { [fam |-> "B", decls |-> Weave(kp, [j \in 1..Len(q) |-> Extras[q[j]]], sl)] : sl \in [1..Len(q) -> Slots], kp \in Keep } : q \in ESeqs }

ASSUME /\ ndJsonSerialize("gen_specs.ndjson", SetToSeq({ [fam |-> "P", decls |-> [k \in 1..Len(p) |-> Pool[p[k]]]] : p \in Seqs } \cup FamB))
       /\ PrintT(<<"GENERATED", Cardinality(Seqs), Cardinality(FamB)>>)
=============================================================================
