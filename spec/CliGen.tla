------------------------------- MODULE CliGen -------------------------------
(* Configurations of one run of the emerge command for C16: flags x validity class of the input x
   state of the output location before the run. *)
EXTENDS Integers, Sequences, FiniteSets, TLC, Json, SequencesExt
CONSTANT Small
Inputs   == {"valid", "validkw", "validnoterm", "validfull", "lexical", "syntax", "semantic", "dfaconflict", "lalrconflict", "missing", "isdir", "none"}
OutFlags == {"default", "abs", "rel"}
OutState == {"dir", "missing", "file"}
NameFlag == {"none", "valid", "invalid", "keyword", "hyphen", "dot", "space", "slash", "underscore", "supnum", "unidigit"}
PkgState == {"absent", "dir", "dirwithfiles", "file", "symlink"}
Extra    == IF Small THEN {"none", "both"} ELSE {"none", "debug", "verbose", "both"}
Cfg(m, i, of, os, nf, ps, x) == [mode |-> m, input |-> i, outflag |-> of, outstate |-> os, nameflag |-> nf, pkgstate |-> ps, extra |-> x]
Runs == { Cfg("run", i, of, os, nf, ps, x) : i \in Inputs, of \in OutFlags, os \in OutState, nf \in NameFlag, ps \in PkgState, x \in Extra }
        \ { c \in { Cfg("run", i, of, os, nf, ps, x) : i \in Inputs, of \in OutFlags, os \in OutState, nf \in NameFlag, ps \in PkgState, x \in Extra } :
              c.outstate # "dir" /\ c.pkgstate # "absent" }       \* no package location without an output directory
Others == { Cfg(m, i, of, "dir", nf, ps, "none") : m \in {"help", "version", "badflag"}, i \in {"valid", "none", "syntax"}, of \in {"default", "abs"},
            nf \in {"none", "invalid"}, ps \in {"absent", "dir"} }
ASSUME ndJsonSerialize("gen_cli.ndjson", SetToSeq(Runs \cup Others)) /\ PrintT(<<"GENERATED", Cardinality(Runs \cup Others)>>)
=============================================================================
