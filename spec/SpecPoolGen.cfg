CONSTANT K = 3
CONSTANT MaxDecls = 3
CONSTANT MaxExtra = 2
