----------------------------- MODULE LexTextGen -----------------------------
(* Generator of specification TEXTS for the stream level of C05 (and C20's
   lexical part): every sequence of at most 2 lexical elements (valid tokens,
   near-miss tokens, comments) from the full pool, and of at most MaxCore
   elements from a core pool, each followed by every separator choice, in
   every order.  Texts are sequences of one-character strings.            *)
EXTENDS Integers, Sequences, FiniteSets, TLC, Json, SequencesExt

CONSTANTS MaxCore, PairSeps   \* PairSeps: how many of the separators are used between the elements of a pair from the full pool

ValidEl == <<
  <<"\"", "a", "\\", "\"", "\"">>,
  <<"\"", "\\", "\"", "\"">>,
  <<"\"", "\\", "\"", "\\", "\"", "\"">>,
  <<"\"", "\\", "\"", "a", "\"">>,
  <<"\"", "a", "\\", "\\", "\"">>,
  <<"\"", "/", "/", "\"">>,
  <<"\"", "/", "*", "\"">>,
  <<"/", "a", "\\", "/", "\\", "/", "/">>,
  <<"/", "\\", "/", "a", "/">>,
  <<"/", "\"", "/">>,
  <<"/", "a", " ", "b", "/">>,
  <<"\"", "'", "\"">>,
  <<"=">>,
  <<";">>,
  <<"|">>,
  <<"(">>,
  <<")">>,
  <<"[">>,
  <<"]">>,
  <<"{">>,
  <<"}">>,
  <<"{", "{">>,
  <<"}", "}">>,
  <<"<">>,
  <<">">>,
  <<"$", "I", "D">>,
  <<"$", "W", "S", "_", "1">>,
  <<"@", "l", "e", "f", "t">>,
  <<"@", "r", "i", "g", "h", "t">>,
  <<"@", "n", "o", "n", "e">>,
  <<"g", "r", "a", "m", "m", "a", "r">>,
  <<"g", "r", "a", "m">>,
  <<"g", "r", "a", "m", "m", "a", "r", "s">>,
  <<"x">>,
  <<"a", "b", "_", "1">>,
  <<"g", "9">>,
  <<"A", "B">>,
  <<"A", "_", "1">>,
  <<"T", "0">>,
  <<"\"", "a", "\"">>,
  <<"\"", "a", "\\", "\"", "b", "\"">>,
  <<"\"", "\\", "\\", "\"">>,
  <<"\"", "i", "f", "(", "\"">>,
  <<"/", "a", "/">>,
  <<"/", "a", "\\", "/", "b", "/">>,
  <<"/", "\\", "/", "/">>,
  <<"/", "[", "a", "-", "z", "]", "+", " ", "x", "/">>,
  <<"/", "a", "\\", "\\", "/">> >>
NearEl == <<
  <<"@", "l", "e", "f">>,
  <<"@", "l", "e", "f", "t", "y">>,
  <<"$">>,
  <<"$", "a">>,
  <<"\"", "a", "b">>,
  <<"\"", "\"">>,
  <<"/", "a", "b">>,
  <<"/", "/">>,
  <<"/", "*", " ", "x", " ", "*", "*", "/">>,
  <<"/", "*", " ", "x">>,
  <<"/", "*", "*", "/">>,
  <<"/", "*", " ", "a", " ", "*", " ", "b", " ", "*", "/", " ", "c">>,
  <<"/", "/", " ", "c">>,
  <<"/", "*", " ", "c", " ", "*", "/">>,
  <<"/", "*", "*", "*", "/">>,
  <<"@">>,
  <<"#">>,
  <<"'">>,
  <<"!">>,
  <<"A">>,
  <<".">>,
  <<",">>,
  <<"\\">>,
  <<"}", "}", "}">>,
  <<"{", "{", "{">>,
  <<"*">>,
  <<"/", "*", "/">>,
  <<"\"", "a", " ", "b", "\"">>,
  <<"\f">> >>
CoreEl == <<
  <<"=">>,
  <<";">>,
  <<"{">>,
  <<"{", "{">>,
  <<"}">>,
  <<"x">>,
  <<"g", "r", "a", "m", "m", "a", "r">>,
  <<"g", "r", "a", "m">>,
  <<"A", "B">>,
  <<"\"", "a", "\"">>,
  <<"/", "a", "/">>,
  <<"/", "/", " ", "c">>,
  <<"/", "*", " ", "c", " ", "*", "/">>,
  <<"@", "l", "e", "f", "t">>,
  <<"@", "l", "e", "f">>,
  <<"$", "I", "D">>,
  <<"\"", "a", "b">>,
  <<"/", "a", "b">>,
  <<"#">>,
  <<"A">>,
  <<"<">> >>
Seps == <<
  <<>>,
  <<" ">>,
  <<"\n">>,
  <<"\t">>,
  <<" ", "\n", " ", " ">>,
  <<"\r", "\n">> >>
\* what a text may START with (positions of every token then shift; a form feed is not white space)
Lead == { <<" ">>, <<"\n">>, <<"\t">>, <<"\r">>, <<"\n", "\n", " ", " ">>, <<"\f">> }

Rg(s) == { s[i] : i \in 1..Len(s) }
Els == Rg(ValidEl) \cup Rg(NearEl)
Sp == Rg(Seps)
OneS(E, S) == { e \o s : e \in E, s \in S }
One(E) == OneS(E, Sp)
RECURSIVE UpToS(_, _, _)
UpToS(E, n, S) == IF n = 0 THEN {<<>>} ELSE LET r == UpToS(E, n - 1, S) IN r \cup { a \o b : a \in OneS(E, S), b \in r }
UpTo(E, n) == UpToS(E, n, Sp)
Texts == UpTo(Els, 1) \cup UpToS(Els, 2, { Seps[i] : i \in 1..PairSeps }) \cup UpTo(Rg(CoreEl), MaxCore)
         \cup { l \o t : l \in Lead, t \in UpTo(Els, 1) \cup UpToS(Rg(CoreEl), 2, {<<>>, <<" ">>}) }

ASSUME /\ ndJsonSerialize("gen_texts.ndjson", SetToSeq({ [text |-> t] : t \in Texts }))
       /\ PrintT(<<"GENERATED", Cardinality(Texts)>>)
=============================================================================
