----------------------------- MODULE LexTextGen -----------------------------
(* Generator of specification TEXTS for the stream level of C05 (and C20's
   lexical part): every sequence of at most 2 lexical elements (valid tokens,
   near-miss tokens, comments) from the full pool, and of at most MaxCore
   elements from a core pool, each followed by every separator choice, in
   every order.  Texts are sequences of one-character strings.            *)
EXTENDS Integers, Sequences, FiniteSets, TLC, Json, SequencesExt

CONSTANTS MaxCore, PairSeps, LongStarts   \* PairSeps: how many of the separators are used between the elements of a pair from the full pool

ValidEl == <<
  <<"\"", "a", "\\", "\"", "\"">>,
  <<"\"", "\\", "\"", "\"">>,
  <<"\"", "\\", "\"", "\\", "\"", "\"">>,
  <<"\"", "\\", "\"", "a", "\"">>,
  <<"\"", "a", "\\", "\\", "\"">>,
  <<"\"", "/", "/", "\"">>,
  <<"\"", "/", "*", "\"">>,
  <<"/", "a", "\\", "/", "\\", "/", "/">>,
  <<"/", "\\", "/", "a", "/">>,
  <<"/", "\"", "/">>,
  <<"/", "a", " ", "b", "/">>,
  <<"\"", "'", "\"">>,
  <<"=">>,
  <<";">>,
  <<"|">>,
  <<"(">>,
  <<")">>,
  <<"[">>,
  <<"]">>,
  <<"{">>,
  <<"}">>,
  <<"{", "{">>,
  <<"}", "}">>,
  <<"<">>,
  <<">">>,
  <<"$", "I", "D">>,
  <<"$", "W", "S", "_", "1">>,
  <<"@", "l", "e", "f", "t">>,
  <<"@", "r", "i", "g", "h", "t">>,
  <<"@", "n", "o", "n", "e">>,
  <<"g", "r", "a", "m", "m", "a", "r">>,
  <<"g", "r", "a", "m">>,
  <<"g", "r", "a", "m", "m", "a", "r", "s">>,
  <<"x">>,
  <<"a", "b", "_", "1">>,
  <<"g", "9">>,
  <<"A", "B">>,
  <<"A", "_", "1">>,
  <<"T", "0">>,
  <<"\"", "a", "\"">>,
  <<"\"", "a", "\\", "\"", "b", "\"">>,
  <<"\"", "\\", "\\", "\"">>,
  <<"\"", "i", "f", "(", "\"">>,
  <<"/", "a", "/">>,
  <<"/", "a", "\\", "/", "b", "/">>,
  <<"/", "\\", "/", "/">>,
  <<"/", "[", "a", "-", "z", "]", "+", " ", "x", "/">>,
  <<"/", "a", "\\", "\\", "/">> >>
NearEl == <<
  <<"@", "l", "e", "f">>,
  <<"@", "l", "e", "f", "t", "y">>,
  <<"$">>,
  <<"$", "a">>,
  <<"\"", "a", "b">>,
  <<"\"", "\"">>,
  <<"/", "a", "b">>,
  <<"/", "/">>,
  <<"/", "*", " ", "x", " ", "*", "*", "/">>,
  <<"/", "*", " ", "x">>,
  <<"/", "*", "*", "/">>,
  <<"/", "*", " ", "a", " ", "*", " ", "b", " ", "*", "/", " ", "c">>,
  <<"/", "/", " ", "c">>,
  <<"/", "*", " ", "c", " ", "*", "/">>,
  <<"/", "*", "*", "*", "/">>,
  <<"@">>,
  <<"#">>,
  <<"'">>,
  <<"!">>,
  <<"A">>,
  <<".">>,
  <<",">>,
  <<"\\">>,
  <<"}", "}", "}">>,
  <<"{", "{", "{">>,
  <<"*">>,
  <<"/", "*", "/">>,
  <<"\"", "a", " ", "b", "\"">>,
  <<"\f">> >>
CoreEl == <<
  <<"=">>,
  <<";">>,
  <<"{">>,
  <<"{", "{">>,
  <<"}">>,
  <<"x">>,
  <<"g", "r", "a", "m", "m", "a", "r">>,
  <<"g", "r", "a", "m">>,
  <<"A", "B">>,
  <<"\"", "a", "\"">>,
  <<"/", "a", "/">>,
  <<"/", "/", " ", "c">>,
  <<"/", "*", " ", "c", " ", "*", "/">>,
  <<"@", "l", "e", "f", "t">>,
  <<"@", "l", "e", "f">>,
  <<"$", "I", "D">>,
  <<"\"", "a", "b">>,
  <<"/", "a", "b">>,
  <<"#">>,
  <<"A">>,
  <<"<">> >>
Seps == <<
  <<>>,
  <<" ">>,
  <<"\n">>,
  <<"\t">>,
  <<" ", "\n", " ", " ">>,
  <<"\r", "\n">> >>

Rg(s) == { s[i] : i \in 1..Len(s) }
El == ValidEl \o NearEl            \* the full pool, as a sequence
NEl == Len(El)
NCore == Len(CoreEl)
NSep == Len(Seps)

\* A text is described by a tuple of indices (so that TLC enumerates small integer states on all workers instead of
\* building one huge set of sequences); Text(c) spells it out.
\*   <<"one",  i, s>>                   El[i] Seps[s]
\*   <<"pair", i, s, j, t>>             El[i] Seps[s] El[j] Seps[t]           s, t among the first PairSeps separators
\*   <<"core", n, i1, s1, i2, s2, i3, s3>>   n <= MaxCore elements of CoreEl; all separators for n <= 2, the first two for n = 3
\*   <<"long", i, k, n>>                k blanks, then valid elements (cyclically from the i-th on) separated by a blank, every
\*                                      eighth by a new line, until the text has n characters, then the identifier end: texts
\*                                      longer than the block sizes of readers (4096, 8192), in every alignment k
\*   <<"lead", l, c>>                   LeadSeq[l] followed by a "one" text or a "core" text of 2 elements over the first two separators
LeadSeq == << <<" ">>, <<"\n">>, <<"\t">>, <<"\r">>, <<"\n", "\n", " ", " ">>, <<"\f">> >>
RECURSIVE CoreText(_, _)
CoreText(c, k) == IF k > c[2] THEN <<>> ELSE CoreEl[c[2 * k + 1]] \o Seps[c[2 * k + 2]] \o CoreText(c, k + 1)
NV == Len(ValidEl)
LongText(i, k, n) ==
  LET RECURSIVE Build(_, _)
      Build(j, acc) == IF Len(acc) >= n THEN acc
                       ELSE Build(j + 1, acc \o ValidEl[1 + ((i + j) % NV)] \o (IF j % 8 = 7 THEN <<"\n">> ELSE <<" ">>))
  IN [x \in 1..k |-> " "] \o Build(0, <<>>) \o <<"e", "n", "d">>
RECURSIVE Text(_)
Text(c) == CASE c[1] = "one"  -> El[c[2]] \o Seps[c[3]]
             [] c[1] = "pair" -> El[c[2]] \o Seps[c[3]] \o El[c[4]] \o Seps[c[5]]
             [] c[1] = "core" -> CoreText(c, 1)
             [] c[1] = "lead" -> LeadSeq[c[2]] \o Text(c[3])
             [] c[1] = "long" -> LongText(c[2], c[3], c[4])

VARIABLES lvl, c
vars == <<lvl, c>>
Init == lvl = 0 /\ c = <<>>
SepsFor(n) == IF n = 3 THEN 1..2 ELSE 1..NSep
\* level 1 fixes the family and the first element, level 2 the rest
First == { <<"one", i>> : i \in 1..NEl } \cup { <<"pair", i>> : i \in 1..NEl }
         \cup { <<"core", n, i>> : n \in 1..MaxCore, i \in 1..NCore } \cup { <<"core", 0, 0>> }
         \cup { <<"lead", l>> : l \in 1..Len(LeadSeq) }
         \cup { <<"long", i>> : i \in 1..LongStarts }
Rest(f) ==
  CASE f[1] = "one"  -> { <<"one", f[2], s>> : s \in 1..NSep }
    [] f[1] = "pair" -> { <<"pair", f[2], s, j, t>> : s \in 1..PairSeps, j \in 1..NEl, t \in 1..PairSeps }
    [] f[1] = "core" ->
         (CASE f[2] = 0 -> { <<"core", 0>> }
            [] f[2] = 1 -> { <<"core", 1, f[3], s>> : s \in 1..NSep }
            [] f[2] = 2 -> { <<"core", 2, f[3], s, j, t>> : s \in 1..NSep, j \in 1..NCore, t \in 1..NSep }
            [] f[2] = 3 -> { <<"core", 3, f[3], s, j, t, k, u>> : s \in 1..2, j \in 1..NCore, t \in 1..2, k \in 1..NCore, u \in 1..2 })
    [] f[1] = "long" -> { <<"long", f[2] * 5, k, n>> : k \in 0..3, n \in {4090, 8185} }
    [] f[1] = "lead" -> { <<"lead", f[2], <<"one", i, s>> >> : i \in 1..NEl, s \in 1..NSep }
                        \cup { <<"lead", f[2], <<"core", 2, i, s, j, t>> >> : i \in 1..NCore, s \in 1..2, j \in 1..NCore, t \in 1..2 }
Next == \/ lvl = 0 /\ lvl' = 1 /\ c' \in First
        \/ lvl = 1 /\ lvl' = 2 /\ c' \in Rest(c)
Spec == Init /\ [][Next]_vars
Emit == lvl = 2 => PrintT("TEXT " \o ToJson([text |-> Text(c)]))
=============================================================================
