------------------------------ MODULE ParseTrace ------------------------------
(* Trace validation of the real EBNF parser (C18, C04 part 2b, C11):
   ptraces.ndjson holds, per generated specification, the callback events
   recorded from the REAL parser.Parse (token and production callbacks) and
   parser.ParseAndEvaluate (evaluation callbacks with their argument values and
   results), with and without a failure injected at callback number k.
   Each event must be the step that the standard shift-reduce driver takes on
   the LALR(1) table TLC built from the DOCUMENTED grammar (doctable.json,
   independent of the embedded switch):
     - a token event: the action on the next source token is a shift, and the
       event carries exactly that token (kind, lexeme, offset, line, column);
     - a production event: the action is the reduction by that production
       (rightmost derivation in reverse);
     - an evaluation event: additionally its arguments are the values of the
       body symbols, left to right, and the value/position of the head are the
       callback's result / the first body symbol's position.
   A parse-mode trace also rebuilds the syntax tree from its reductions; on
   acceptance it must equal the abstract specification that was printed
   (juxtaposition tighter than |, | to the right, operands as written).
   With an injected failure the trace must stop exactly there and the parser
   must return an error wrapping the injected one.                          *)
EXTENDS Ebnf, TLC, Json

Doc == JsonDeserialize("doctable.json")
Impl == JsonDeserialize("impltable.json")
Tab == Doc.tab
Cases == ndJsonDeserialize("ptraces.ndjson")

VARIABLES c, i, tk, st, vs, status
vars == <<c, i, tk, st, vs, status>>

TermIdx(t) == CHOOSE j \in 1..Len(Tab.terms) : Tab.terms[j] = t
SymIdx(x) == CHOOSE j \in 1..Len(Tab.syms) : Tab.syms[j] = x
Toks == Cases[c].toks
Evs == Cases[c].events
NextKind == IF tk < Len(Toks) THEN "t:" \o Toks[tk + 1].k ELSE "t:$end"
KnownKind == \E j \in 1..Len(Tab.terms) : Tab.terms[j] = NextKind
DocAct == IF ~KnownKind THEN <<"e", 0>>
          ELSE LET d == Tab.acts[st[Len(st)]][TermIdx(NextKind)] IN IF Len(d) = 1 THEN d[1] ELSE <<"e", 0>>

Leaf(t) == [k |-> t.k, lx |-> t.lx]
HOf(v) == HTerm(v.n, v.s)
RuleDecl(r) == Decl("rule", r.name, "", "", r.rhs, "", <<>>)
\* semantic value of a reduction by documented production p from the values v of its body
Sem(p, v) ==
  CASE p = 1 -> [name |-> v[1], decls |-> v[2]]
    [] p = 2 -> v[2].lx
    [] p = 3 -> Append(v[1], v[2])
    [] p = 4 -> <<>>
    [] p = 5 -> v[1]
    [] p = 6 -> v[1]
    [] p = 7 -> RuleDecl(v[1])
    [] p \in {8, 9} -> "semi"
    [] p = 10 -> Tok(v[1].lx, "str", v[3].lx)
    [] p = 11 -> Tok(v[1].lx, "pat", v[3].lx)
    [] p = 12 -> Tok(v[1].lx, "pre", v[3].lx)
    [] p = 13 -> Dir("left", v[2])
    [] p = 14 -> Dir("right", v[2])
    [] p = 15 -> Dir("none", v[2])
    [] p = 16 -> Append(v[1], HOf(v[2]))
    [] p = 17 -> Append(v[1], v[2])
    [] p = 18 -> <<HOf(v[1])>>
    [] p = 19 -> <<v[1]>>
    [] p = 20 -> [k |-> "r", n |-> "", s |-> FALSE, name |-> v[2].name, rhs |-> v[2].rhs]
    [] p = 21 -> [name |-> v[1], rhs |-> <<v[3]>>]
    [] p = 22 -> [name |-> v[1], rhs |-> <<>>]
    [] p = 23 -> v[1]
    [] p = 24 -> Cat(v[1], v[2])
    [] p = 25 -> Un("grp", v[2])
    [] p = 26 -> Un("opt", v[2])
    [] p = 27 -> Un("star", v[2])
    [] p = 28 -> Un("plus", v[2])
    [] p = 29 -> Alt(v[1], v[3])
    [] p = 30 -> TAlt(v[1])
    [] p = 31 -> NT(v[1])
    [] p = 32 -> v[1]
    [] p = 33 -> v[1].lx
    [] p = 34 -> TTok(v[1].lx)
    [] p = 35 -> TStr(v[1].lx)

SameProd(k, p) == k >= 0 /\ k + 1 <= Len(Impl.prods) /\ Impl.prods[k + 1].h = Doc.prods[p].h /\ Impl.prods[k + 1].b = Doc.prods[p].b
PopN(s, n) == SubSeq(s, 1, Len(s) - n)
TopN(s, n) == SubSeq(s, Len(s) - n + 1, Len(s))

Init == /\ c \in 1..Len(Cases)
        /\ i = 0 /\ tk = 0 /\ st = <<1>> /\ vs = <<>> /\ status = "run"

\* ---- parse mode ----
DoShift(val) == /\ DocAct[1] = "s"
                /\ st' = Append(st, DocAct[2]) /\ vs' = Append(vs, val) /\ tk' = tk + 1
Reduce(p, val) == LET n == Len(Doc.prods[p].b)
                      base == PopN(st, n)
                      g == Tab.trans[base[Len(base)]][SymIdx(Doc.prods[p].h)]
                  IN st' = Append(base, g) /\ vs' = Append(PopN(vs, n), val) /\ tk' = tk

TokEvent(e) == /\ tk < Len(Toks)
               /\ e.k = Toks[tk + 1].k /\ e.lx = Toks[tk + 1].lx /\ e.off = Toks[tk + 1].off /\ e.ln = Toks[tk + 1].ln /\ e.col = Toks[tk + 1].col
               /\ DoShift(Leaf(Toks[tk + 1]))
ProdEvent(e) == /\ DocAct[1] = "r" /\ SameProd(e.i, DocAct[2])
                /\ Reduce(DocAct[2], Sem(DocAct[2], TopN(vs, Len(Doc.prods[DocAct[2]].b))))

\* ---- evaluate mode: shifts are not observable, values are [val, pos] ----
PosOfTok(t) == <<t.off, t.ln, t.col>>
NoPos == <<-1, 0, 0>>
ArgVal(a) == [val |-> a.val, pos |-> IF a.off = -1 THEN NoPos ELSE <<a.off, a.ln, a.col>>]
SilentShift == /\ Cases[c].mode = "eval" /\ status = "run" /\ DocAct[1] = "s" /\ tk < Len(Toks)
               /\ DoShift([val |-> Toks[tk + 1].lx, pos |-> PosOfTok(Toks[tk + 1])])
               /\ UNCHANGED <<c, i, status>>
EvalEvent(e) == LET p == DocAct[2]  n == Len(Doc.prods[p].b)  top == TopN(vs, n) IN
                /\ DocAct[1] = "r" /\ SameProd(e.i, p)
                /\ Len(e.args) = n
                /\ \A j \in 1..n : ArgVal(e.args[j]) = top[j]
                /\ Reduce(p, [val |-> e.res, pos |-> IF n = 0 THEN NoPos ELSE top[1].pos])

Step == /\ status = "run" /\ i < Len(Evs)
        /\ ~(Cases[c].mode = "eval" /\ DocAct[1] = "s" /\ tk < Len(Toks))      \* pending silent shifts first
        /\ LET e == Evs[i + 1]
               okay == CASE e.e = "tok"  -> Cases[c].mode = "parse" /\ ENABLED TokEvent(e)
                         [] e.e = "prod" -> Cases[c].mode = "parse" /\ ENABLED ProdEvent(e)
                         [] e.e = "eval" -> Cases[c].mode = "eval" /\ ENABLED EvalEvent(e)
           IN IF okay
              THEN /\ (CASE e.e = "tok" -> TokEvent(e) [] e.e = "prod" -> ProdEvent(e) [] e.e = "eval" -> EvalEvent(e))
                   /\ i' = i + 1 /\ status' = "run"
              ELSE status' = "bad" /\ UNCHANGED <<i, tk, st, vs>>
        /\ c' = c

TreeOk == Cases[c].mode = "parse" => (Len(vs) = 1 /\ vs[1].name = "t" /\ vs[1].decls = Cases[c].decls)
Finish == /\ status = "run" /\ i = Len(Evs)
          /\ ~(Cases[c].mode = "eval" /\ DocAct[1] = "s" /\ tk < Len(Toks))
          /\ status' = IF Cases[c].failat = -1
                       THEN IF Cases[c].ok /\ DocAct[1] = "a" /\ tk = Len(Toks) /\ TreeOk
                               /\ (Cases[c].mode = "eval" => Cases[c].hasres)
                            THEN "done" ELSE "bad"
                       ELSE IF ~Cases[c].ok /\ Cases[c].wraps /\ Len(Evs) = Cases[c].failat THEN "done" ELSE "bad"
          /\ UNCHANGED <<c, i, tk, st, vs>>
Next == Step \/ SilentShift \/ Finish
Spec == Init /\ [][Next]_vars

Inv == status = "bad" => PrintT("TRACEBAD " \o ToJson([id |-> Cases[c].id, mode |-> Cases[c].mode, at |-> i, tk |-> tk,
                                                        expect |-> DocAct, failat |-> Cases[c].failat]))
Done == status = "done" => PrintT("TRACEOK " \o ToJson([id |-> Cases[c].id]))
=============================================================================
