------------------------------ MODULE EmitCheck ------------------------------
(* C08.  For every accepted specification of the pool, emits.ndjson holds the
   token automaton emerge computed (transitions, accepting-state owners) and
   what the COMPILED emitted package answers: advanceDFA(s, r) for every state
   (and -1, n, n+1) and every symbol of the automaton plus probe characters,
   and the terminal evalDFA attributes to every state.  EmitOK: the emitted
   transition function is the automaton's transition function everywhere and
   -1 elsewhere; the emitted accepting table is exactly the owner table and
   yields the error token for every other state.  vet/build flags are the Go
   type checker's verdict on the emitted files alone (standard library only). *)
EXTENDS Integers, Sequences, FiniteSets, TLC, Json

Cases == ndJsonDeserialize("emits.ndjson")

Delta(c, s, r) == LET m == { i \in 1..Len(c.trans) : c.trans[i][1] = s /\ c.trans[i][2] = r }
                  IN IF m = {} THEN -1 ELSE c.trans[CHOOSE i \in m : TRUE][3]
OwnerOf(c, s) == LET m == { i \in 1..Len(c.owner) : c.owner[i][1] = ToString(s) }
                 IN IF m = {} THEN "ERR" ELSE c.owner[CHOOSE i \in m : TRUE][2]
Rows(c) == (-1)..(c.nstates + 1)              \* row index in adv/eval is s + 2
BadAdv(c) == { <<s, c.probes[j]>> : s \in Rows(c), j \in 1..Len(c.probes) } \cap
             { p \in (Rows(c) \X { c.probes[j] : j \in 1..Len(c.probes) }) :
                 \E j \in 1..Len(c.probes) : c.probes[j] = p[2] /\ c.adv[p[1] + 2][j] # Delta(c, p[1], p[2]) }
BadEval(c) == { s \in Rows(c) : c.eval[s + 2] # OwnerOf(c, s) }
Unique(c) == \A i, j \in 1..Len(c.owner) : c.owner[i][1] = c.owner[j][1] => i = j

VARIABLES k
Init == k = 0
Next == k = 0 /\ k' \in 1..Len(Cases)
Spec == Init /\ [][Next]_k
Check(c) == /\ (c.vetok /\ c.buildok) \/ PrintT("NOTVALIDGO " \o ToJson([id |-> c.id]))
            /\ (~c.buildok \/ (BadAdv(c) = {} /\ BadEval(c) = {} /\ Unique(c)))
                 \/ PrintT("EMITDIFF " \o ToJson([id |-> c.id, adv |-> BadAdv(c), eval |-> BadEval(c)]))
Inv == k # 0 => Check(Cases[k])
=============================================================================
