--------------------------- MODULE ScannerProduct ---------------------------
(* C03.  Product of the combined scanner automaton the REAL code built for a
   set of terminal definitions (Spec.DFA(): automaton + accepting-state owners,
   or a conflict error) with one reference recogniser PER DEFINITION
   (residual-term sets, Regex.tla).  In every reachable product state, with
   M = the definitions whose residual accepts:
     - the automaton accepts iff M is non-empty (exact union);
     - the accepting state is owned by the definition that must win: the only
       member of M, or the only string literal in M;
     - if no such winner exists the state is a genuine conflict: emerge must
       have reported a conflict (never resolved silently), and conversely a
       reported conflict must be reachable (never spurious).                *)
EXTENDS Integers, Sequences, FiniteSets, TLC, Json, Regex

Cases == ndJsonDeserialize("scanner.ndjson")

VARIABLES c, refs, impl, w
vars == <<c, refs, impl, w>>
View == <<c, refs, impl>>

ND(k)   == Len(Cases[k].defs)
IsStr(k, i) == Cases[k].defs[i].kind \in {"str", "inl"}
Built(k) == Cases[k].auto.err = "" /\ Cases[k].perr = ""
M(k, rs) == { i \in 1..ND(k) : RefAcc(rs[i]) }
Strs(k, S) == { i \in S : IsStr(k, i) }
\* 0 = nothing matches, -1 = genuine conflict, else the index of the winning definition
Winner(k, S) == IF S = {} THEN 0
                ELSE IF Cardinality(S) = 1 THEN CHOOSE i \in S : TRUE
                ELSE IF Cardinality(Strs(k, S)) = 1 THEN CHOOSE i \in Strs(k, S) : TRUE
                ELSE -1

ImplAcc(k, s)   == s # 0 /\ Cases[k].auto.acc[s]
ImplOwner(k, s) == IF s = 0 THEN 0 ELSE Cases[k].auto.owner[s]
ImplStep(k, s, x) == IF s = 0 THEN 0 ELSE Cases[k].auto.d[s][x]

Init == /\ c \in 1..Len(Cases)
        /\ refs = [i \in 1..ND(c) |-> {Cases[c].defs[i].term}]
        /\ impl = IF Built(c) THEN Cases[c].auto.start ELSE 0
        /\ w = <<>>

Ok(k, rs, s) == LET win == Winner(k, M(k, rs)) IN
                IF Built(k) THEN /\ win # -1
                                 /\ ImplAcc(k, s) = (win # 0)
                                 /\ (win # 0 => ImplOwner(k, s) = win)
                ELSE TRUE

\* liveness: a maximal-munch scanner follows the automaton for as long as it has a transition, so for a
\* scanner table (live = TRUE) the automaton must be alive exactly as long as some definition can still match
RefLive(rs) == \E i \in DOMAIN rs : rs[i] # {}
LiveOk(k, rs, s) == Cases[k].live => ((s # 0) = RefLive(rs))

Next == /\ Cases[c].perr = ""
        /\ Ok(c, refs, impl) /\ LiveOk(c, refs, impl)
        /\ \E x \in 1..Len(Cases[c].classes) :
             LET cp == Cases[c].classes[x].rep
                 r2 == [i \in 1..ND(c) |-> StepRef(refs[i], cp)]
                 s2 == ImplStep(c, impl, x)
             IN /\ ((\E i \in 1..ND(c) : r2[i] # {}) \/ s2 # 0)
                /\ refs' = r2 /\ impl' = s2 /\ w' = Append(w, cp) /\ c' = c
Spec == Init /\ [][Next]_vars

Report(tag) == PrintT(tag \o " " \o ToJson([id |-> Cases[c].id, w |-> w, m |-> M(c, refs),
                                           win |-> Winner(c, M(c, refs)), acc |-> ImplAcc(c, impl), owner |-> ImplOwner(c, impl)]))
Agree ==
  /\ (w = <<>> /\ Cases[c].perr # "") => Report("PARSEERROR")
  /\ (w = <<>> /\ ~Built(c) /\ ~Cases[c].conflict) => Report("BUILDERROR")
  /\ (Built(c) /\ ~Ok(c, refs, impl)) => Report("DISAGREE")
  /\ (Winner(c, M(c, refs)) = -1) => Report("CONFLICTSTATE")
  /\ (Built(c) /\ ~LiveOk(c, refs, impl)) => Report("LIVENESS")
=============================================================================
