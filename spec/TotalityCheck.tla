---------------------------- MODULE TotalityCheck ----------------------------
(* C14: the outcome table observed on the real entry points (totality.ndjson: entry point, outcome kind, count;
   plus every bad case found) against Pipeline!AllowedKinds. *)
EXTENDS Pipeline, Json
Rows == ndJsonDeserialize("totality.ndjson")
VARIABLE k
TInit == k = 0 /\ Init
TNext == k = 0 /\ k' \in 1..Len(Rows) /\ UNCHANGED vars
TSpec == TInit /\ [][TNext]_<<k, vars>>
TInv == k # 0 => (Rows[k].kind \in AllowedKinds \/ PrintT("NOTTOTAL " \o ToJson([ep |-> Rows[k].ep, kind |-> Rows[k].kind, n |-> Rows[k].n])))
=============================================================================
