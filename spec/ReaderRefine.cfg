SPECIFICATION Spec
CONSTANT N = 2
CONSTANT Variant = "emit"
CONSTANT MaxRunes = 5
CONSTANT Kinds = {97, 10, 233}
INVARIANT Refines
VIEW View
CHECK_DEADLOCK FALSE
