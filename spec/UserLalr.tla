------------------------------- MODULE UserLalr -------------------------------
(* C06.  For every grammar in lalr.ndjson (textbook families, generated small
   grammars, operator grammars with every precedence table) the harness
   recorded what the real Spec.LALRParsingTable() returned: a conflict error,
   or the complete ACTION/GOTO table.  TLC builds the LALR(1) table of the
   same derived grammar and recorded precedence levels from first principles
   (LALR.tla) and checks
     - emerge rejects with a conflict report iff a conflict remains after the
       documented resolution (never silently resolved, never a false reject);
     - the returned table is, state for state and cell for cell, the one TLC
       built (pairing found by exploring both automata from their initial states);
     - the standard shift-reduce driver on the RETURNED table accepts exactly
       the sentences of the grammar, for all terminal strings up to length K
       (compared with the Kleene fixpoint of the productions);
     - for the generated families, which carry their abstract declarations, the
       same driver accepts exactly the strings the SPECIFICATION denotes under
       the documented meaning of ( ) [ ] { } {{ }} (Ebnf!Denot), i.e. from the
       text of the specification to the table;
     - for an operator grammar, x o1 x o2 x is grouped as the declared
       precedence order and associativity dictate.                          *)
EXTENDS LALR, Ebnf, TLC, Json

Cases == ndJsonDeserialize("lalr.ndjson")
N == Len(Cases)

SeqSet(s) == { s[i] : i \in 1..Len(s) }
GOf(c) == [prods |-> c.prods, start |-> c.start,
           levels |-> [i \in 1..Len(c.levels) |-> [assoc |-> c.levels[i].assoc, terms |-> SeqSet(c.levels[i].terms), prods |-> SeqSet(c.levels[i].prods)]]]

IAct(c, s, t) == IF s >= 1 /\ s <= Len(c.act) /\ t \in DOMAIN c.act[s] THEN c.act[s][t] ELSE <<"e", 0>>
IGoto(c, s, A) == IF s >= 1 /\ s <= Len(c.goto) /\ A \in DOMAIN c.goto[s] THEN c.goto[s][A] ELSE 0
IsTermOf(tab, x) == \E j \in 1..Len(tab.terms) : tab.terms[j] = x
INext(c, tab, i, x) == IF IsTermOf(tab, x) THEN (IF IAct(c, i, x)[1] = "s" THEN IAct(c, i, x)[2] ELSE 0) ELSE IGoto(c, i, x)

\* pairs <<implementation state, TLC state>> reachable from the initial pair
RECURSIVE Reach(_, _, _, _)
Reach(c, tab, done, todo) ==
  IF todo = {} THEN done
  ELSE LET new == UNION { { <<INext(c, tab, p[1], tab.syms[j]), tab.trans[p[2]][j]>> : j \in { x \in 1..Len(tab.syms) : tab.trans[p[2]][x] # 0 } } : p \in todo }
       IN Reach(c, tab, done \cup todo, { p \in new : p[1] # 0 } \ (done \cup todo))
CellOk(c, tab, p, j) ==
  LET d == tab.acts[p[2]][j]  a == IAct(c, p[1], tab.terms[j]) IN
  IF d = {} THEN a[1] = "e"
  ELSE IF Cardinality(d) > 1 THEN FALSE
  ELSE LET e == CHOOSE x \in d : TRUE IN
       CASE e[1] = "s" -> a[1] = "s" /\ a[2] # 0
         [] e[1] = "r" -> a[1] = "r" /\ a[2] = e[2]
         [] e[1] = "a" -> a[1] = "a"
GotoOk(c, tab, p, j) == IsTermOf(tab, tab.syms[j]) \/ ((IGoto(c, p[1], tab.syms[j]) # 0) = (tab.trans[p[2]][j] # 0))
IsoOk(c, tab) ==
  LET pairs == Reach(c, tab, {}, {<<1, 1>>}) IN
  /\ \A p \in pairs : \A j \in 1..Len(tab.terms) : CellOk(c, tab, p, j)
  /\ \A p \in pairs : \A j \in 1..Len(tab.syms) : GotoOk(c, tab, p, j)
  /\ \A p, q \in pairs : (p[1] = q[1]) = (p[2] = q[2])
  /\ { p[2] : p \in pairs } = 1..Len(tab.trans)
  /\ \A s \in 1..Len(c.act) : (DOMAIN c.act[s] # {} \/ DOMAIN c.goto[s] # {}) => s \in { p[1] : p \in pairs }
  /\ \A p \in pairs : DOMAIN c.act[p[1]] \subseteq SeqSet(tab.terms) /\ DOMAIN c.goto[p[1]] \subseteq SeqSet(tab.syms)

\* the shift-reduce driver on the RETURNED table; stack of states; <<>> = error, <<0>> = accept
RECURSIVE IFeed(_, _, _)
IFeed(c, st, t) == LET a == IAct(c, st[Len(st)], t) IN
                   CASE a[1] = "s" -> Append(st, a[2])
                     [] a[1] = "a" -> <<0>>
                     [] a[1] = "r" -> LET p == c.prods[a[2]]
                                          base == SubSeq(st, 1, Len(st) - Len(p.b))
                                          g == IF base = <<>> THEN 0 ELSE IGoto(c, base[Len(base)], p.h)
                                      IN IF g = 0 THEN <<>> ELSE IFeed(c, Append(base, g), t)
                     [] OTHER -> <<>>
RECURSIVE IRun(_, _, _, _)
IRun(c, w, j, st) == IF st = <<>> THEN FALSE
                     ELSE IF j > Len(w) THEN IFeed(c, st, End) = <<0>>
                     ELSE IRun(c, w, j + 1, IFeed(c, st, w[j]))
Accepts(c, w) == IRun(c, w, 1, <<1>>)

\* language of the grammar on strings up to length K (symbols are the prefixed names)
PLang(p, env) == LET RECURSIVE F(_) F(i) == IF i > Len(p.b) THEN {Eps}
                                          ELSE CatK(IF p.b[i] \in DOMAIN env THEN env[p.b[i]] ELSE {<<p.b[i]>>}, F(i + 1)) IN F(1)
PStep(prods, env) == [n \in DOMAIN env |-> UNION { PLang(prods[i], env) : i \in { j \in 1..Len(prods) : prods[j].h = n } }]
RECURSIVE PFix(_, _)
PFix(prods, env) == LET e2 == PStep(prods, env) IN IF e2 = env THEN env ELSE PFix(prods, e2)
LangOf(c) == PFix(c.prods, [n \in { c.prods[i].h : i \in 1..Len(c.prods) } |-> {}])[c.start]
Words(T) == UNION { [1..n -> T] : n \in 0..K }
LangOk(c) == LET L == LangOf(c) IN \A w \in Words(SeqSet(c.terms)) : Accepts(c, w) = (w \in L)

\* end to end: the language the SPECIFICATION denotes (documented meaning of the EBNF operators, Ebnf!Denot / StepD)
\* against the returned table, for cases that carry their abstract declarations
RECURSIVE DFix(_, _)
DFix(rules, env) == LET e2 == StepD(rules, env) IN IF e2 = env THEN env ELSE DFix(rules, e2)
TW(w) == [i \in 1..Len(w) |-> "t:" \o w[i]]
E2EOk(c) == c.decls = <<>> \/
            LET rules == RulesOf(c.decls)
                L == { TW(w) : w \in DFix(rules, Bottom(RuleNames(rules)))["start"] }
            IN \A w \in Words(SeqSet(c.terms)) : Accepts(c, w) = (w \in L)

\* operator grammars: which operator production is reduced first on  x o1 x o2 x
RECURSIVE FirstOp(_, _, _, _)
FirstOp(c, w, j, st) ==      \* the operator terminal of the first reduction by a production with three symbols
  IF st = <<>> \/ st = <<0>> THEN "none"
  ELSE LET t == IF j > Len(w) THEN End ELSE w[j]  a == IAct(c, st[Len(st)], t) IN
       IF a[1] = "r" /\ Len(c.prods[a[2]].b) = 3 /\ c.prods[a[2]].b[1] = c.prods[a[2]].h THEN c.prods[a[2]].b[2]
       ELSE IF a[1] = "r" THEN LET p == c.prods[a[2]]  base == SubSeq(st, 1, Len(st) - Len(p.b))
                               IN FirstOp(c, w, j, Append(base, IGoto(c, base[Len(base)], p.h)))
       ELSE IF a[1] = "s" THEN FirstOp(c, w, j + 1, Append(st, a[2]))
       ELSE "none"
LevelIdx(c, op) == CHOOSE i \in 1..Len(c.levels) : op \in SeqSet(c.levels[i].terms)
Ops(c) == UNION { SeqSet(c.levels[i].terms) : i \in 1..Len(c.levels) }
ExpectFirst(c, o1, o2) == LET l1 == LevelIdx(c, o1)  l2 == LevelIdx(c, o2) IN
                          IF l1 < l2 THEN o1 ELSE IF l1 > l2 THEN o2
                          ELSE IF c.levels[l1].assoc = "left" THEN o1 ELSE o2
OpsOk(c) == c.fam # "op" \/ \A o1, o2 \in Ops(c) :
              FirstOp(c, <<"t:x", o1, "t:x", o2, "t:x">>, 1, <<1>>) = ExpectFirst(c, o1, o2)

\* Degenerate grammars (outside C06: the table builder of the dependency crashes on them, emerge reports an error):
\* a non-terminal that derives no string of terminals, or a cyclic derivation A =>+ A.
NTsG(c) == { c.prods[i].h : i \in 1..Len(c.prods) }
RECURSIVE GenFix(_, _)
GenFix(c, S) == LET S2 == S \cup { c.prods[i].h : i \in { j \in 1..Len(c.prods) : \A x \in 1..Len(c.prods[j].b) : c.prods[j].b[x] \notin NTsG(c) \/ c.prods[j].b[x] \in S } }
                IN IF S2 = S THEN S ELSE GenFix(c, S2)
RECURSIVE NulFix(_, _)
NulFix(c, S) == LET S2 == S \cup { c.prods[i].h : i \in { j \in 1..Len(c.prods) : \A x \in 1..Len(c.prods[j].b) : c.prods[j].b[x] \in S } }
                IN IF S2 = S THEN S ELSE NulFix(c, S2)
RECURSIVE Closure2(_)
Closure2(R) == LET R2 == R \cup { p \in { <<a[1], b[2]>> : a \in R, b \in R } : \E a \in R, b \in R : a[2] = b[1] /\ p = <<a[1], b[2]>> }
               IN IF R2 = R THEN R ELSE Closure2(R2)
Degenerate(c) == \/ GenFix(c, {}) # NTsG(c)
                 \/ \E e \in Closure2({ e \in NTsG(c) \X NTsG(c) : \E i \in 1..Len(c.prods) : c.prods[i].h = e[1] /\ \E x \in 1..Len(c.prods[i].b) :
                        c.prods[i].b[x] = e[2] /\ \A y \in 1..Len(c.prods[i].b) : y = x \/ c.prods[i].b[y] \in NulFix(c, {}) }) : e[1] = e[2]

\* Trigger condition of the recorded dependency defect SUPERSET-GOTO: the table builder picks, as the target of a
\* transition, the FIRST state whose item set contains the computed one; this can only go wrong when the kernel of
\* one state of the automaton is a proper subset of the kernel of another.
Nested(tab) == \E p, q \in 1..Len(tab.kernels) : p # q /\ tab.kernels[p] \subseteq tab.kernels[q]

Check(c) ==
  LET tab == LalrTable(GOf(c))
      unresolved == \E q \in 1..Len(tab.acts) : \E j \in 1..Len(tab.terms) : Cardinality(tab.acts[q][j]) > 1
      rep(tag) == PrintT(tag \o " " \o ToJson([id |-> c.id]))
  IN IF Degenerate(c) THEN (c.perr = "" /\ (c.built \/ c.terr # "")) \/ rep("PARSEERROR")
     ELSE
     /\ (c.perr = "") \/ rep("PARSEERROR")
     /\ (c.perr # "" \/ (c.built = ~unresolved)) \/ rep(IF unresolved THEN "SILENTLYRESOLVED" ELSE "FALSEREJECT")
     /\ (c.perr # "" \/ c.built \/ c.conflict) \/ rep("NOCONFLICTREPORT")
     /\ (~c.built \/ unresolved \/ IsoOk(c, tab)) \/ rep(IF Nested(tab) THEN "TABLEDIFF-NESTED" ELSE "TABLEDIFF")
     /\ (~c.built \/ LangOk(c)) \/ rep(IF Nested(tab) THEN "LANGUAGE-NESTED" ELSE "LANGUAGE")
     /\ (~c.built \/ Nested(tab) \/ E2EOk(c)) \/ rep("ENDTOEND")
     /\ (~Nested(tab)) \/ rep("NESTED")
     /\ (~c.built \/ OpsOk(c)) \/ rep("PRECEDENCE")

VARIABLES lvl, k
vars == <<lvl, k>>
Init == lvl = 0 /\ k = 0
Chunk == 16
MinOf(a, b) == IF a < b THEN a ELSE b
Next == \/ lvl = 0 /\ lvl' = 1 /\ k' \in 0..((N - 1) \div Chunk)
        \/ lvl = 1 /\ lvl' = 2 /\ k' \in (k * Chunk + 1)..MinOf((k + 1) * Chunk, N)
Spec == Init /\ [][Next]_vars
Inv == lvl = 2 => Check(Cases[k])
=============================================================================
