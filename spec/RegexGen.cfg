CONSTANT MaxSize = 3
