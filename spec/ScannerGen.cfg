CONSTANT MaxDefs = 3
CONSTANT PoolSize = 35
