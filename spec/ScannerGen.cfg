CONSTANT MaxDefs = 3
CONSTANT PoolSize = 32
