CONSTANT MaxCore = 2
CONSTANT PairSeps = 3
