SPECIFICATION Spec
CONSTANT MaxCore = 2
CONSTANT PairSeps = 3
INVARIANT Emit
CHECK_DEADLOCK FALSE
