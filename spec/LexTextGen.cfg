CONSTANT MaxCore = 2
