SPECIFICATION Spec
CONSTANT MaxCore = 2
CONSTANT PairSeps = 3
CONSTANT LongStarts = 4
INVARIANT Emit
CHECK_DEADLOCK FALSE
