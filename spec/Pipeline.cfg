SPECIFICATION Spec
INVARIANT Total
PROPERTY Terminates
CHECK_DEADLOCK FALSE
