------------------------------ MODULE LexStream ------------------------------
(* Trace validation for the stream level of C05: streams.ndjson holds, per
   text, the token stream recorded from the REAL lexer (lexer.New(..).NextToken()
   until end of input or error).  Each recorded token must be exactly the next
   step of the reference scanner EbnfScan: same kind, lexeme, offset, line and
   column; the stream must end where the reference ends (end of input, or a
   lexical error at the same position).  A trace is accepted iff it is consumed
   completely (state count checked by the driver).                           *)
EXTENDS EbnfScan

Cases == ndJsonDeserialize("streams.ndjson")

VARIABLES c, p, i, st     \* case, position in the text, tokens consumed, "run" | "done" | "bad"
vars == <<c, p, i, st>>

Txt == Cases[c].cps
Rec == Cases[c].toks

Init == c \in 1..Len(Cases) /\ p = 1 /\ i = 0 /\ st = "run"

TokOk(t, r) == /\ t.k = r.k
               /\ LexemeOf(Txt, t) = r.lx
               /\ r.off = t.b - 1 /\ r.ln = LineOf(Txt, t.b) /\ r.col = ColOf(Txt, t.b)

Consume == /\ st = "run" /\ i < Len(Rec)
           /\ LET t == RefNext(Txt, p) IN
              IF t.k \notin {"EOF", "ERR"} /\ TokOk(t, Rec[i + 1])
              THEN p' = t.e /\ i' = i + 1 /\ st' = "run"
              ELSE p' = p /\ i' = i /\ st' = "bad"
           /\ c' = c
Finish  == /\ st = "run" /\ i = Len(Rec)
           /\ LET t == RefNext(Txt, p) IN
              st' = IF \/ (Cases[c].end = "eof" /\ t.k = "EOF")
                       \/ (Cases[c].end = "err" /\ t.k = "ERR" /\ Cases[c].eln = LineOf(Txt, t.b) /\ Cases[c].ecol = ColOf(Txt, t.b))
                    THEN "done" ELSE "bad"
           /\ UNCHANGED <<c, p, i>>
Next == Consume \/ Finish
Spec == Init /\ [][Next]_vars

Expect == LET t == RefNext(Txt, p) IN
          [id |-> Cases[c].id, i |-> i, k |-> t.k, b |-> t.b, e |-> t.e,
           lx |-> IF t.k \in {"EOF", "ERR"} THEN <<>> ELSE LexemeOf(Txt, t), ln |-> LineOf(Txt, t.b), col |-> ColOf(Txt, t.b)]
Inv == st = "bad" => PrintT("MISMATCH " \o ToJson(Expect))
=============================================================================
