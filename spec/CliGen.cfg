CONSTANT Small = TRUE
