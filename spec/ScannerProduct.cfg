SPECIFICATION Spec
INVARIANT Agree
VIEW View
CHECK_DEADLOCK FALSE
