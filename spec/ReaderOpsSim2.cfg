SPECIFICATION Spec
CONSTANT N = 2
CONSTANT Variant = "emit"
CONSTANT MaxRunes = 7
CONSTANT Kinds = {97, 10, 233, 8364, 255, 2047, 2048, 55295, 65535}
INVARIANT Emit
CHECK_DEADLOCK FALSE
