------------------------------- MODULE Predefs -------------------------------
(* The predefined token patterns ($NAME), as source text. *)
PredefText == [ n \in {"$WS", "$DIGIT", "$LETTER", "$ID", "$NUMBER", "$STRING", "$COMMENT"} |->
  CASE n = "$WS" -> "[\\x09\\x0A\\x0D\\x20]"
    [] n = "$DIGIT" -> "[0-9]"
    [] n = "$LETTER" -> "[A-Za-z]"
    [] n = "$ID" -> "[A-Za-z_][0-9A-Za-z_]*"
    [] n = "$NUMBER" -> "-?[0-9]+(\\.[0-9]+)?"
    [] n = "$STRING" -> "\"([\\x21\\x23-\\x5B\\x5D-\\x7E]|\\\\[\\x21-\\x7E])+\""
    [] n = "$COMMENT" -> "(#|//)[\\x09\\x20-\\x7E]*|/\\*[\\x09\\x0A\\x0D\\x20-\\x7E]*?\\*/" ]
=============================================================================
