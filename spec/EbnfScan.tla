------------------------------ MODULE EbnfScan ------------------------------
(* Reference scanner for specification texts (property C05): from each token
   start follow the documented token automaton (EbnfLexRef: one residual-term
   set per token kind) for the longest run it allows; the run is a token of
   the kind that wins in the state reached (keywords over identifiers), skipped
   if it is a blank, a line end or a comment, and a lexical error at its first
   character if no kind accepts there.  A text is a sequence of code points.  *)
EXTENDS EbnfLexRef

\* The reference automaton was determinised from EbnfLexRef by EbnfLexDet.tla (same TLC, one evaluation):
\*   cls[cp] symbol class of a code point (0: outside every set), delta[state][class], win[state]
\*   (index into LexDefs of the kind that wins there, 0 none), dead (index of the dead state), state 1 initial.
R == JsonDeserialize("refdfa.json")
ASSUME R.names = [i \in 1..Len(LexDefs) |-> LexDefs[i].name]
StepD(s, cp) == IF cp >= 1 /\ cp <= 126 /\ R.cls[cp] # 0 THEN R.delta[s][R.cls[cp]] ELSE R.dead

\* follow the automaton from position p while it stays alive: <<position after the run, state reached>>
RECURSIVE Run(_, _, _)
Run(txt, p, s) == IF p > Len(txt) THEN <<p, s>>
                  ELSE LET s2 == StepD(s, txt[p]) IN IF s2 # R.dead THEN Run(txt, p + 1, s2) ELSE <<p, s>>

\* next significant token at or after position p: [k, b, e] with k a terminal name, "EOF" or "ERR"
RECURSIVE RefNext(_, _)
RefNext(txt, p) ==
  IF p > Len(txt) THEN [k |-> "EOF", b |-> p, e |-> p]
  ELSE LET r == Run(txt, p, 1)
           q == r[1]
           win == IF q = p THEN 0 ELSE R.win[r[2]]
       IN IF win <= 0 THEN [k |-> "ERR", b |-> p, e |-> q]
          ELSE IF LexDefs[win].name \in Skipped THEN RefNext(txt, q)
          ELSE [k |-> LexDefs[win].name, b |-> p, e |-> q]

\* lexeme: the source text; for strings and patterns the text between the delimiters
LexemeOf(txt, t) == IF t.k \in {"STRING", "REGEX"} THEN SubSeq(txt, t.b + 1, t.e - 2) ELSE SubSeq(txt, t.b, t.e - 1)

\* position of the character at index p: offset (0-based), line and column (1-based; a line ends with LF)
NLBefore(txt, p) == { j \in 1..(p - 1) : txt[j] = 10 }
LineOf(txt, p) == 1 + Cardinality(NLBefore(txt, p))
\* the last line feed before position p (0 if none), found by walking back: lines are short, texts can be long
RECURSIVE LastNL(_, _)
LastNL(txt, q) == IF q = 0 THEN 0 ELSE IF txt[q] = 10 THEN q ELSE LastNL(txt, q - 1)
ColOf(txt, p) == p - LastNL(txt, p - 1)
=============================================================================
