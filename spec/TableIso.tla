------------------------------ MODULE TableIso ------------------------------
(* C04, part 1.  The ACTION/GOTO functions embedded in emerge's EBNF parser
   (probed completely by the harness: impltable.json) against the LALR(1)
   table TLC built from the documented grammar and precedence list
   (doctable.json, EbnfDocTable.tla).  TLC explores the graph of PAIRS
   (implementation state, documented item-set) from (0, I0) over all grammar
   symbols; in every pair every ACTION cell and every GOTO cell must agree
   (shift/goto targets are paired by the exploration, reductions must name the
   same production by head and body).  The driver then checks that the pairing
   is one-to-one and that no implementation row outside the pairing has entries. *)
EXTENDS Integers, Sequences, FiniteSets, TLC, Json

Doc == JsonDeserialize("doctable.json")
Impl == JsonDeserialize("impltable.json")
Tab == Doc.tab

VARIABLES i, q
vars == <<i, q>>

SymIdx(x) == CHOOSE j \in 1..Len(Tab.syms) : Tab.syms[j] = x
IAct(s, t) == IF s + 1 <= Len(Impl.act) /\ t \in DOMAIN Impl.act[s + 1] THEN Impl.act[s + 1][t] ELSE <<"e", -1>>
IGoto(s, A) == IF s + 1 <= Len(Impl.goto) /\ A \in DOMAIN Impl.goto[s + 1] THEN Impl.goto[s + 1][A] ELSE -1
IsT(x) == \E j \in 1..Len(Tab.terms) : Tab.terms[j] = x

Init == i = 0 /\ q = 1
Next == \E j \in 1..Len(Tab.syms) :
          LET x == Tab.syms[j]  q2 == Tab.trans[q][j] IN
          /\ q2 # 0
          /\ q' = q2
          /\ IF IsT(x) THEN IAct(i, x)[1] = "s" /\ i' = IAct(i, x)[2]
                       ELSE IGoto(i, x) # -1 /\ i' = IGoto(i, x)
Spec == Init /\ [][Next]_vars

SameProd(k, p) == k + 1 <= Len(Impl.prods) /\ k >= 0 /\ Impl.prods[k + 1].h = Doc.prods[p].h /\ Impl.prods[k + 1].b = Doc.prods[p].b
CellOk(t, j) ==
  LET d == Tab.acts[q][j]  a == IAct(i, t) IN
  IF d = <<>> THEN a[1] = "e"          \* (JSON turned the action sets into sequences)
  ELSE IF Len(d) > 1 THEN FALSE
  ELSE LET e == d[1] IN
       CASE e[1] = "s" -> a[1] = "s"
         [] e[1] = "r" -> a[1] = "r" /\ SameProd(a[2], e[2])
         [] e[1] = "a" -> a[1] = "a"
BadCells == { Tab.terms[j] : j \in { x \in 1..Len(Tab.terms) : ~CellOk(Tab.terms[x], x) } }
           \cup { t \in DOMAIN Impl.act[i + 1] : ~IsT(t) }                       \* an entry for a symbol the grammar does not have
BadGotos == { Tab.syms[j] : j \in { x \in 1..Len(Tab.syms) : ~IsT(Tab.syms[x]) /\ ((IGoto(i, Tab.syms[x]) # -1) # (Tab.trans[q][x] # 0)) } }
           \cup { A \in DOMAIN Impl.goto[i + 1] : \A j \in 1..Len(Tab.syms) : Tab.syms[j] # A }

Agree == /\ PrintT("PAIR " \o ToJson([i |-> i, q |-> q]))
         /\ (BadCells # {} \/ BadGotos # {}) => PrintT("CELLS " \o ToJson([i |-> i, q |-> q, act |-> BadCells, goto |-> BadGotos]))
=============================================================================
