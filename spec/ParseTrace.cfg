SPECIFICATION Spec
CONSTANT K = 3
INVARIANT Inv
CHECK_DEADLOCK FALSE
