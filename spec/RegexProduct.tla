--------------------------- MODULE RegexProduct ---------------------------
(* Product of the reference recogniser (Regex.tla: sets of residual terms)
   with the automata the REAL code built for the same pattern (exported by
   the Go harness into cases.ndjson).  Every reachable product state is
   visited, so agreement in all of them is full language equality over the
   string domain (ASCII 1..127 plus the code points the pattern names) --
   not string sampling.  Used by C02 (token pipeline and each of its stages),
   C10 (NFA route and followpos route, three-way) and, with owner data, C03. *)
EXTENDS Integers, Sequences, FiniteSets, TLC, Json, Regex

Cases == ndJsonDeserialize("cases.ndjson")

VARIABLES c,     \* index of the case (pattern) this behaviour explores
          ref,   \* reference state: set of residual terms
          refK,  \* residual terms of the known-defect-shaped pattern (KnownShape below)
          impl,  \* one state per exported automaton (0 = no transition / dead)
          w      \* the word read so far (history; hidden by VIEW)
vars == <<c, ref, refK, impl, w>>
View == <<c, ref, refK, impl>>

NA(k)        == Len(Cases[k].autos)
Built(k, i)  == Cases[k].autos[i].err = ""
ImplAcc(k, i, s) == s # 0 /\ Cases[k].autos[i].acc[s]
ImplStep(k, i, s, x) == IF s = 0 THEN 0 ELSE Cases[k].autos[i].d[s][x]

Members(cl) == UNION { (cl.m[j][1])..(cl.m[j][2]) : j \in 1..Len(cl.m) }

\* the alphabet partition shipped by the harness must be uniform for every set of the term
Uniform(k) ==
  \A j \in 1..Len(Cases[k].classes) :
    LET cl == Cases[k].classes[j] IN
    \A f \in SetsOfT(Cases[k].term) : \A m \in Members(cl) : InSet(f, m) = InSet(f, cl.rep)
\* ... and must cover ASCII without NUL, with pairwise disjoint classes
Covers(k) ==
  LET cls == Cases[k].classes
      all == UNION { Members(cls[j]) : j \in 1..Len(cls) }
  IN /\ Ascii \subseteq all
     /\ \A i, j \in 1..Len(cls) : i # j => Members(cls[i]) \cap Members(cls[j]) = {}

(* Implementation-shaped model of the recorded defect NUL-EPS (known_findings.json):
   emerge builds `.`, \S \D \W, \P{..}, [:ascii:] and negated bracket groups over code
   points 0..127, and code point 0 is the automata library's epsilon symbol, so
   every such set is built as "the set, or nothing".  KnownShape rewrites a
   term accordingly; it predicts the exact footprint of the defect, so that a
   disagreement NOT explained by it is still reported as a new violation.    *)
ItemNul(it) == it.t = "any" \/ (it.t = "cls" /\ (it.n \in {"S", "D", "W", "ascii"} \/ (Len(it.n) > 2 /\ SubSeq(it.n, 1, 2) = "P:")))   \* \P{..} is a complement over 0..127 too
SetNul(f) == LET some == \E i \in 1..Len(f.s) : ItemNul(f.s[i]) IN IF f.neg THEN ~some ELSE some
RECURSIVE KnownShapeT(_), KnownShapeF(_)
KnownShapeF(f) ==
  CASE f.k = "set" -> IF SetNul(f) THEN AltF(<< <<f>>, <<>> >>) ELSE f
    [] f.k = "alt" -> [f EXCEPT !.a = [i \in 1..Len(f.a) |-> KnownShapeT(f.a[i])]]
    [] f.k = "rep" -> [f EXCEPT !.t = KnownShapeT(f.t)]
KnownShapeT(t) == [i \in 1..Len(t) |-> KnownShapeF(t[i])]

Init == /\ c \in 1..Len(Cases)
        /\ ref = {Cases[c].term}
        /\ refK = {KnownShapeT(Cases[c].term)}
        /\ impl = [i \in 1..NA(c) |-> IF Built(c, i) THEN Cases[c].autos[i].start ELSE 0]
        /\ w = <<>>

AllBuilt(k) == \A i \in 1..NA(k) : Built(k, i)
AgreeAt(k, r, im) == \A i \in 1..NA(k) : RefAcc(r) = ImplAcc(k, i, im[i])

\* a state that disagrees with the documented meaning AND with the known-defect shape is
\* reported once and not expanded; otherwise the whole product is explored
Next == /\ AllBuilt(c)
        /\ (AgreeAt(c, ref, impl) \/ AgreeAt(c, refK, impl))
        /\ \E x \in 1..Len(Cases[c].classes) :
             LET cp == Cases[c].classes[x].rep
                 r2 == StepRef(ref, cp)
                 k2 == StepRef(refK, cp)
                 i2 == [i \in 1..NA(c) |-> ImplStep(c, i, impl[i], x)]
             IN /\ (r2 # {} \/ k2 # {} \/ \E i \in 1..NA(c) : i2[i] # 0)
                /\ ref' = r2 /\ refK' = k2 /\ impl' = i2 /\ w' = Append(w, cp) /\ c' = c

Spec == Init /\ [][Next]_vars

\* ---- the decision: evaluated in every reachable product state ----
Report(tag) == PrintT(tag \o " " \o ToJson([id |-> Cases[c].id, w |-> w, ref |-> RefAcc(ref), refk |-> RefAcc(refK),
                       impl |-> [i \in 1..NA(c) |-> ImplAcc(c, i, impl[i])],
                       err |-> [i \in 1..NA(c) |-> Cases[c].autos[i].err]]))
Agree ==
  /\ (w = <<>> /\ ~(Uniform(c) /\ Covers(c))) => Report("BADPARTITION")
  /\ (w = <<>> /\ ~AllBuilt(c)) => Report("BUILDERROR")
  /\ (AllBuilt(c) /\ ~AgreeAt(c, ref, impl)) => Report("DISAGREE")
=============================================================================
