SPECIFICATION Spec
CONSTANT NodeSize = 2
CONSTANT Vals = {1, 2, 3}
CONSTANT MaxLen = 12
CONSTANT MaxOps = 40
CONSTANT Record = TRUE
INVARIANTS Refines ResultOk Emit
CHECK_DEADLOCK FALSE
