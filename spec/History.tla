------------------------------- MODULE History -------------------------------
(* "The outcome is a function of the input class": layouts.ndjson holds one
   record per run of the real code with the class it belongs to (base: a token
   sequence; for C15/C17 an input text), a digest of the outcome (hash) and the
   digest of the reference run of the class (ref).  Every record must carry
   the reference digest and (for layouts) positions consistent with the
   printed text.  The digests are computed by the harness from the complete
   result; TLC visits every record.                                         *)
EXTENDS Integers, Sequences, TLC, Json
Recs == ndJsonDeserialize("layouts.ndjson")
N == Len(Recs)
Chunk == 512
VARIABLES lvl, k
vars == <<lvl, k>>
Init == lvl = 0 /\ k = 0
Min(a, b) == IF a < b THEN a ELSE b
Next == \/ lvl = 0 /\ lvl' = 1 /\ k' \in 0..((N - 1) \div Chunk)
        \/ lvl = 1 /\ lvl' = 2 /\ k' \in (k * Chunk + 1)..Min((k + 1) * Chunk, N)
Spec == Init /\ [][Next]_vars
Check(r) == /\ (r.hash = r.ref) \/ PrintT("DIFFERS " \o ToJson([base |-> r.base, variant |-> r.variant]))
            /\ r.posok \/ PrintT("POSITION " \o ToJson([base |-> r.base, variant |-> r.variant]))
Inv == lvl = 2 => Check(Recs[k])
=============================================================================
