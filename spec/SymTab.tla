------------------------------- MODULE SymTab -------------------------------
(* Implementation-shaped model of how emerge derives productions from a
   specification (internal/ebnf/parser/spec/parser.go reduce actions 20-31 and
   symbol_table.go: the memo of generated non-terminals and the synthesis of
   their names).  It follows the code, including the parts that the property
   C01 does NOT want (names that can collide with user names), so that
     - the production set it predicts can be compared with the real one
       (model drift = the code was refactored), and
     - the known finding NAME-CAPTURE is matched by SHAPE: a language
       difference is attributed to it only if the model reproduces the real
       production set AND the model itself exhibits a name collision.

   The right-hand side of a rule is evaluated in the order of the LR parse
   (post-order, left to right).  A value is a list of symbol strings
   ("Strings"); symbols are records [t, n] (t = 1 terminal).  The state is
     prods    sequence of productions [h, b] in order of first insertion
     memo     sequence of [key, grp, opt, star, plus]; key = the Strings as a SET
              (eqStrings compares them as sets)
     counter  number of names of the form gen<N>_<op> handed out so far
     clash    TRUE once a synthesised name equals a user rule name or a name
              synthesised earlier for a different key                        *)
EXTENDS Integers, Sequences, FiniteSets, TLC

Sy(t, n) == [t |-> t, n |-> n]
TermName(v) ==      \* symbol_table.go terminalNames
  CASE v = "!" -> "exclam" [] v = "#" -> "hash" [] v = "$" -> "dollar" [] v = "%" -> "percent" [] v = "&" -> "ampersand"
    [] v = "'" -> "squot" [] v = "(" -> "lparen" [] v = ")" -> "rparen" [] v = "*" -> "star" [] v = "+" -> "plus"
    [] v = "," -> "comma" [] v = "-" -> "dash" [] v = "." -> "dot" [] v = "/" -> "slash" [] v = ":" -> "colon"
    [] v = ";" -> "semi" [] v = "<" -> "lt" [] v = "=" -> "equal" [] v = ">" -> "gt" [] v = "?" -> "question"
    [] v = "@" -> "atsign" [] v = "[" -> "lbrack" [] v = "]" -> "rbrack" [] v = "^" -> "caret" [] v = "_" -> "underscore"
    [] v = "`" -> "backtick" [] v = "{" -> "rbrace" [] v = "|" -> "bar" [] v = "}" -> "lbrace" [] v = "~" -> "tilde"
    [] OTHER -> ""

SeqToSet(s) == { s[i] : i \in 1..Len(s) }
Suffix(op) == CASE op = "grp" -> "group" [] op = "opt" -> "opt" [] op = "star" -> "star" [] op = "plus" -> "plus"
AddProd(st, p) == IF \E i \in 1..Len(st.prods) : st.prods[i] = p THEN st ELSE [st EXCEPT !.prods = Append(@, p)]

\* mapStringToNoneTerminal
BaseName(strs) == IF Len(strs) = 1 /\ Len(strs[1]) = 1
                  THEN IF strs[1][1].t = 0 THEN strs[1][1].n ELSE TermName(strs[1][1].n)
                  ELSE ""
NewName(st, strs, op) ==
  LET b == BaseName(strs) IN
  IF b = "" THEN [name |-> "gen" \o ToString(st.counter + 1) \o "_" \o Suffix(op), counter |-> st.counter + 1]
  ELSE [name |-> "gen_" \o b \o "_" \o Suffix(op), counter |-> st.counter]

\* GetGroup / GetOpt / GetStar / GetPlus (with the shared entry and the repaired missing-field case)
FieldOf(e, op) == CASE op = "grp" -> e.grp [] op = "opt" -> e.opt [] op = "star" -> e.star [] op = "plus" -> e.plus
SetField(e, op, v) == CASE op = "grp" -> [e EXCEPT !.grp = v] [] op = "opt" -> [e EXCEPT !.opt = v]
                        [] op = "star" -> [e EXCEPT !.star = v] [] op = "plus" -> [e EXCEPT !.plus = v]
AllNames(st) == UNION { { st.memo[i].grp, st.memo[i].opt, st.memo[i].star, st.memo[i].plus } : i \in 1..Len(st.memo) } \ {""}
GetName(st, strs, op, users) ==
  LET key == SeqToSet(strs)
      hit == { i \in 1..Len(st.memo) : st.memo[i].key = key }
  IN IF hit # {} /\ FieldOf(st.memo[CHOOSE i \in hit : TRUE], op) # ""
     THEN [st |-> st, name |-> FieldOf(st.memo[CHOOSE i \in hit : TRUE], op)]
     ELSE LET nn == NewName(st, strs, op)
              clash == nn.name \in users \/ nn.name \in AllNames(st)
              m2 == IF hit # {} THEN [st.memo EXCEPT ![CHOOSE i \in hit : TRUE] = SetField(@, op, nn.name)]
                    ELSE Append(st.memo, SetField([key |-> key, grp |-> "", opt |-> "", star |-> "", plus |-> ""], op, nn.name))
          IN [st |-> [st EXCEPT !.memo = m2, !.counter = nn.counter, !.clash = @ \/ clash], name |-> nn.name]

\* Eval(tree, st, users) = [strs, st]: the reduce actions
RECURSIVE Eval(_, _, _)
Eval(t, st, users) ==
  CASE t.k = "t"  -> [strs |-> << <<Sy(1, t.n)>> >>, st |-> st]
    [] t.k = "nt" -> [strs |-> << <<Sy(0, t.n)>> >>, st |-> st]
    [] t.k = "cat" -> LET a == Eval(t.c[1], st, users)  b == Eval(t.c[2], a.st, users)
                          cross == [i \in 1..(Len(a.strs) * Len(b.strs)) |->
                                      a.strs[((i - 1) \div Len(b.strs)) + 1] \o b.strs[((i - 1) % Len(b.strs)) + 1]]
                      IN [strs |-> cross, st |-> b.st]
    [] t.k = "alt" -> LET a == Eval(t.c[1], st, users)  b == Eval(t.c[2], a.st, users) IN [strs |-> a.strs \o b.strs, st |-> b.st]
    [] t.k = "talt" -> LET a == Eval(t.c[1], st, users) IN [strs |-> Append(a.strs, <<>>), st |-> a.st]
    [] OTHER ->
         LET a == Eval(t.c[1], st, users)
             g == GetName(a.st, a.strs, t.k, users)
             nt == Sy(0, g.name)
             RECURSIVE Add(_, _)
             Add(s2, i) == IF i > Len(a.strs) THEN s2 ELSE
                           LET al == a.strs[i] IN
                           Add(CASE t.k = "grp"  -> AddProd(s2, [h |-> g.name, b |-> al])
                                 [] t.k = "opt"  -> AddProd(s2, [h |-> g.name, b |-> al])
                                 [] t.k = "star" -> AddProd(s2, [h |-> g.name, b |-> <<nt>> \o al])
                                 [] t.k = "plus" -> AddProd(AddProd(s2, [h |-> g.name, b |-> <<nt>> \o al]), [h |-> g.name, b |-> al]), i + 1)
             s3 == Add(g.st, 1)
             s4 == IF t.k \in {"opt", "star"} THEN AddProd(s3, [h |-> g.name, b |-> <<>>]) ELSE s3
         IN [strs |-> << <<nt>> >>, st |-> s4]

RuleStep(st, name, rhs, users) ==
  IF rhs = <<>> THEN AddProd(st, [h |-> name, b |-> <<>>])
  ELSE LET e == Eval(rhs[1], st, users)
           RECURSIVE Add(_, _)
           Add(s2, i) == IF i > Len(e.strs) THEN s2 ELSE Add(AddProd(s2, [h |-> name, b |-> e.strs[i]]), i + 1)
       IN Add(e.st, 1)

\* all rules of a specification (declarations and rule handles) in source order
Model(rules) ==
  LET users == { rules[i].name : i \in 1..Len(rules) }
      RECURSIVE Go(_, _)
      Go(st, i) == IF i > Len(rules) THEN st ELSE Go(RuleStep(st, rules[i].name, rules[i].rhs, users), i + 1)
  IN Go([prods |-> <<>>, memo |-> <<>>, counter |-> 0, clash |-> FALSE], 1)
=============================================================================
