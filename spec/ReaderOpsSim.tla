----------------------------- MODULE ReaderOpsSim -----------------------------
(* Behaviours of ReaderRefine (fixed variant) under tlc -simulate are client operation sequences that respect the
   two-buffer contract; every state prints its source and history so that the harness can replay them on real readers. *)
EXTENDS ReaderRefine, Json
Emit == Len(hist) >= 4 => PrintT("OPS " \o ToJson([src |-> src, ops |-> hist, n |-> N]))
=============================================================================
