----------------------------- MODULE EbnfLexRef -----------------------------
(* The documented token table of the EBNF language (docs/5-definitions.md,
   "Tokens") as reference definitions: each token kind with its lexeme or its
   pattern as a Regex term, keywords as literals (they win over IDENT by the
   literal-over-pattern rule), plus the skipped elements of property C05:
   blanks, line ends, `//` comments and `/* */` comments ending at the FIRST
   `*/`.  Names are emerge's terminal names so that the owner table exported
   from the real scanner can be compared.

   Readings where the documentation is silent or contradicts itself (DESIGN
   section 8 `Unspec`) are resolved towards the implementation and listed in
   the evidence as assumptions:
     - a REGEX lexeme is non-empty and does not start with `*` (`//` and `/*`
       open comments);
     - comment bodies range over tab + printable ASCII (+ line ends in /* */). *)
EXTENDS Integers, Sequences, FiniteSets, TLC, Json, Regex

Star(t) == RepF(t, 0, -1, "star", FALSE)
Plus(t) == RepF(t, 1, -1, "plus", FALSE)
Set(items) == SetF(items, FALSE)
Lits(cs) == [i \in 1..Len(cs) |-> Lit(cs[i])]
D(name, kind, term) == [name |-> name, kind |-> kind, term |-> term, pre |-> ""]

UpperR == Rng(65, 90)
LowerR == Rng(97, 122)
DigitR == Rng(48, 57)
Us     == Ch(95)

\* STRING  /"([\x21\x23-\x5B\x5D-\x7E]|\\[\x21-\x7E])+"/
StringT == <<Lit(34), Plus(<<AltF(<< <<Set(<<Ch(33), Rng(35, 91), Rng(93, 126)>>)>>, <<Lit(92), Set(<<Rng(33, 126)>>)>> >>)>>), Lit(34)>>
\* REGEX   /\/([\x20-\x2E\x30-\x5B\x5D-\x7E]|\\[\x20-\x7E])*\//   non-empty, first character not `*`
RxFirst == AltF(<< <<Set(<<Rng(32, 41), Rng(43, 46), Rng(48, 91), Rng(93, 126)>>)>>, <<Lit(92), Set(<<Rng(32, 126)>>)>> >>)
RxRest  == AltF(<< <<Set(<<Rng(32, 46), Rng(48, 91), Rng(93, 126)>>)>>, <<Lit(92), Set(<<Rng(32, 126)>>)>> >>)
RegexT  == <<Lit(47), RxFirst, Star(<<RxRest>>), Lit(47)>>
\* comments
LineC   == <<Lit(47), Lit(47), Star(<<Set(<<Ch(9), Rng(32, 126)>>)>>)>>
NotStar == Set(<<Ch(9), Ch(10), Ch(13), Rng(32, 41), Rng(43, 126)>>)
NotStarSlash == Set(<<Ch(9), Ch(10), Ch(13), Rng(32, 41), Rng(43, 46), Rng(48, 126)>>)
\*  /\* ( [^*] | \*+ [^*/] )* \*+ /      -- ends at the first */
BlockC  == <<Lit(47), Lit(42), Star(<<AltF(<< <<NotStar>>, <<Plus(<<Lit(42)>>), NotStarSlash>> >>)>>), Plus(<<Lit(42)>>), Lit(47)>>

LexDefs == <<
  D("=", "str", Lits(<<61>>)),  D(";", "str", Lits(<<59>>)),  D("|", "str", Lits(<<124>>)),
  D("(", "str", Lits(<<40>>)),  D(")", "str", Lits(<<41>>)),  D("[", "str", Lits(<<91>>)),  D("]", "str", Lits(<<93>>)),
  D("{", "str", Lits(<<123>>)), D("}", "str", Lits(<<125>>)), D("{{", "str", Lits(<<123, 123>>)), D("}}", "str", Lits(<<125, 125>>)),
  D("<", "str", Lits(<<60>>)),  D(">", "str", Lits(<<62>>)),
  D("PREDEF", "pat", <<Lit(36), Set(<<UpperR>>), Star(<<Set(<<DigitR, UpperR, Us>>)>>)>>),
  D("@left", "str", Lits(<<64, 108, 101, 102, 116>>)),
  D("@right", "str", Lits(<<64, 114, 105, 103, 104, 116>>)),
  D("@none", "str", Lits(<<64, 110, 111, 110, 101>>)),
  D("grammar", "str", Lits(<<103, 114, 97, 109, 109, 97, 114>>)),
  D("IDENT", "pat", <<Set(<<LowerR>>), Star(<<Set(<<DigitR, LowerR, Us>>)>>)>>),
  D("TOKEN", "pat", <<Set(<<UpperR>>), Star(<<Set(<<DigitR, UpperR, Us>>)>>)>>),
  D("STRING", "pat", StringT),
  D("REGEX", "pat", RegexT),
  D("WS", "pat", <<Plus(<<Set(<<Ch(9), Ch(32)>>)>>)>>),
  D("EOL", "pat", <<Plus(<<Set(<<Ch(10), Ch(13)>>)>>)>>),
  D("COMMENT", "pat", <<AltF(<<LineC, BlockC>>)>>)
>>
Skipped == {"WS", "EOL", "COMMENT"}
=============================================================================
