--------------------------- MODULE PatternAccept ---------------------------
(* C09: every string the real pattern parsers accepted (exported by the harness
   into strings.ndjson, one record per string, with the verdict of both entry
   points) must be a whole sentence of the documented grammar
   (PatternGrammar!InDoc); canonical prints must be accepted; meaningless
   ranges must be rejected; both entry points must agree.
   The state space is a two-level fan-out over the records so that all TLC
   workers share the evaluation.                                            *)
EXTENDS Integers, Sequences, FiniteSets, TLC, Json, PatternGrammar

Recs == ndJsonDeserialize("strings.ndjson")
N == Len(Recs)
Chunk == 256

VARIABLES lvl, k
vars == <<lvl, k>>
Init == lvl = 0 /\ k = 0
Min(a, b) == IF a < b THEN a ELSE b
Next == \/ lvl = 0 /\ lvl' = 1 /\ k' \in 0..((N - 1) \div Chunk)
        \/ lvl = 1 /\ lvl' = 2 /\ k' \in (k * Chunk + 1)..Min((k + 1) * Chunk, N)
Spec == Init /\ [][Next]_vars

AccN(r) == r.nfa = ""
AccA(r) == r.ast = ""
Report(tag, r) == PrintT(tag \o " " \o ToJson([i |-> k, kind |-> r.kind, nfa |-> r.nfa, ast |-> r.ast]))

Check(r) ==
  /\ ((AccN(r) \/ AccA(r)) /\ ~InDoc(r.s)) => Report("NOTINDOC", r)      \* accepted although not a sentence
  /\ (AccN(r) # AccA(r)) => Report("ENTRYPOINTS", r)                       \* the two entry points disagree
  /\ (r.kind = "canon" /\ ~(AccN(r) /\ AccA(r))) => Report("REJECTED", r) \* an unambiguous print was rejected
  /\ (r.kind = "canon" /\ ~InDoc(r.s)) => Report("BADPRINT", r)            \* printer bug (infrastructure)
  /\ (r.kind = "sem" /\ (AccN(r) \/ AccA(r) \/ ~r.named)) => Report("SEMANTIC", r)  \* meaningless range not rejected / not named
  /\ (r.kind = "sem" /\ ~InDoc(r.s)) => Report("BADPRINT", r)
Inv == lvl = 2 => Check(Recs[k])
=============================================================================
