SPECIFICATION Spec
CONSTANT NodeSize = 2
CONSTANT Vals = {1, 2}
CONSTANT MaxLen = 7
CONSTANT MaxOps = 0
CONSTANT Record = FALSE
INVARIANTS Refines ResultOk
VIEW View
CHECK_DEADLOCK FALSE
