------------------------------ MODULE SyntaxErr ------------------------------
(* C20, syntax part.  mutants.ndjson holds single-token insertions, deletions,
   replacements and truncations of valid specifications with what the REAL
   entry points reported (accepted, or an error with file, line and column).
   The reference is the shift-reduce driver on the LALR(1) table TLC built from
   the documented grammar (doctable.json; proven to reject at the same token
   as the recursive-descent recogniser in C04): a token sequence is accepted,
   or its first offending token is the first one for which the table has no
   action - everything before it is a viable prefix.  The diagnostic must name
   the file and the line and column of that token; if the sequence merely ends
   too early the specification must be rejected without pointing at (the
   beginning or the inside of) a token of the text.                                                *)
EXTENDS Integers, Sequences, FiniteSets, TLC, Json

Doc == JsonDeserialize("doctable.json")
Tab == Doc.tab
Cases == ndJsonDeserialize("mutants.ndjson")
N == Len(Cases)
Chunk == 16

TermIdx(t) == CHOOSE j \in 1..Len(Tab.terms) : Tab.terms[j] = t
SymIdx(x) == CHOOSE j \in 1..Len(Tab.syms) : Tab.syms[j] = x
Act(q, t) == LET d == Tab.acts[q][TermIdx(t)] IN IF Len(d) = 1 THEN d[1] ELSE <<"e", 0>>

\* feeds one terminal: the new stack, or <<>> if the table has no action, or <<0>> on accept
RECURSIVE Feed(_, _)
Feed(st, t) == LET a == Act(st[Len(st)], t) IN
               CASE a[1] = "s" -> Append(st, a[2])
                 [] a[1] = "a" -> <<0>>
                 [] a[1] = "r" -> LET p == Doc.prods[a[2]]
                                      base == SubSeq(st, 1, Len(st) - Len(p.b))
                                  IN Feed(Append(base, Tab.trans[base[Len(base)]][SymIdx(p.h)]), t)
                 [] OTHER -> <<>>
\* 0: accepted; j in 1..Len: first offending token; Len+1: the sequence ends too early
\* (evaluated in blocks of 40 tokens: TLC's cost per step grows with the depth of a recursion, and texts can be long)
RECURSIVE Block(_, _, _, _)
Block(kinds, j, st, n) == IF n = 0 \/ j > Len(kinds) THEN [bad |-> FALSE, j |-> j, st |-> st]
                          ELSE LET s2 == Feed(st, "t:" \o kinds[j]) IN
                               IF s2 = <<>> THEN [bad |-> TRUE, j |-> j, st |-> st] ELSE Block(kinds, j + 1, s2, n - 1)
RECURSIVE FirstErr(_, _, _)
FirstErr(kinds, j, st) == LET r == Block(kinds, j, st, 40) IN
                          IF r.bad THEN r.j
                          ELSE IF r.j > Len(kinds) THEN (IF Feed(r.st, "t:$end") = <<0>> THEN 0 ELSE r.j)
                          ELSE FirstErr(kinds, r.j, r.st)

\* the reported position lies on token i (anywhere from its first to its last character)
Inside(o, c, i) == o.ln = c.pos[i][1] /\ o.col >= c.pos[i][2] /\ o.col < c.pos[i][2] + c.lens[i]
ObsOk(o, c, fe) ==
  IF fe = 0 THEN TRUE                                            \* syntactically fine: a later (semantic) error is not C20's business
  ELSE /\ ~o.ok
       /\ IF fe <= Len(c.kinds) THEN o.haspos /\ o.hasfile /\ <<o.ln, o.col>> = <<c.pos[fe][1], c.pos[fe][2]>>
          ELSE ~o.haspos \/ (Len(c.kinds) = 0) \/ ~\E i \in 1..Len(c.kinds) : Inside(o, c, i)
Check(c) == LET fe == FirstErr(c.kinds, 1, <<1>>) IN
            /\ (fe = 0 => c.p.ok /\ c.a.ok) \/ PrintT("FALSEREJECT " \o ToJson([id |-> c.id, fe |-> fe]))
            /\ (ObsOk(c.p, c, fe) /\ ObsOk(c.a, c, fe) /\ ObsOk(c.s, c, fe)) \/ PrintT("WRONGPOS " \o ToJson([id |-> c.id, fe |-> fe]))

VARIABLES lvl, k
vars == <<lvl, k>>
Init == lvl = 0 /\ k = 0
Min(a, b) == IF a < b THEN a ELSE b
Next == \/ lvl = 0 /\ lvl' = 1 /\ k' \in 0..((N - 1) \div Chunk)
        \/ lvl = 1 /\ lvl' = 2 /\ k' \in (k * Chunk + 1)..Min((k + 1) * Chunk, N)
Spec == Init /\ [][Next]_vars
Inv == lvl = 2 => Check(Cases[k])
=============================================================================
