----------------------------- MODULE ArrayStack -----------------------------
(* The stack emerge emits into every generated package (templates/stack.go.tmpl):
   a linked list of fixed-size blocks.  The model follows the code field for
   field - blocks keep the STALE values left behind by Pop, a block is linked
   in front when topIndex reaches nodeSize, unlinked when topIndex falls to -1 -
   and carries the abstract stack (a sequence) next to it.  TLC checks, for
   every sequence of operations within the bounds, that the implementation-
   shaped state refines the abstract stack and that every result (Pop, Peek,
   Contains, Size, IsEmpty) is the abstract one.  `exp` is the result the ABSTRACT stack gives for the last operation, `hist`
   (simulation only) the operations with those results; the check replays
   them on the compiled emitted code.

   nodes    sequence of blocks, nodes[1] = topNode, nodes[2] = topNode.next ...
            a block is a sequence of NodeSize values (0 = Go's zero value)
   topIndex index into the top block, 0-based as in the code (-1 when empty) *)
EXTENDS Integers, Sequences, FiniteSets, TLC, Json

CONSTANTS NodeSize, Vals, MaxLen, MaxOps, Record   \* Record: keep the history (simulation); FALSE in the exhaustive run

VARIABLES nodes, topIndex, listSize, abs, res, exp, hist
vars == <<nodes, topIndex, listSize, abs, res, exp, hist>>

ZeroBlock == [i \in 1..NodeSize |-> 0]
Init == nodes = <<>> /\ topIndex = -1 /\ listSize = 0 /\ abs = <<>> /\ res = <<"init", 0, TRUE>>
        /\ exp = [op |-> "init", v |-> 0, r |-> 0, ok |-> TRUE] /\ hist = <<>>

Log(op, v, r, ok) == LET e == [op |-> op, v |-> v, r |-> r, ok |-> ok] IN
                     exp' = e /\ hist' = IF Record THEN Append(hist, e) ELSE hist

\* ---- the code ----
Push(v) ==
  /\ Len(abs) < MaxLen
  /\ LET ti == topIndex + 1 IN
     IF nodes = <<>>
     THEN /\ nodes' = <<[ZeroBlock EXCEPT ![ti + 1] = v]>> /\ topIndex' = ti
     ELSE IF ti = NodeSize
     THEN /\ nodes' = <<[ZeroBlock EXCEPT ![1] = v]>> \o nodes /\ topIndex' = 0
     ELSE /\ nodes' = [nodes EXCEPT ![1][ti + 1] = v] /\ topIndex' = ti
  /\ listSize' = listSize + 1
  /\ abs' = Append(abs, v)
  /\ res' = <<"push", v, TRUE>>
  /\ Log("push", v, 0, TRUE)

Pop ==
  IF listSize = 0
  THEN /\ UNCHANGED <<nodes, topIndex, listSize, abs>> /\ res' = <<"pop", 0, FALSE>> /\ Log("pop", 0, 0, FALSE)
  ELSE /\ LET val == nodes[1][topIndex + 1]  ti == topIndex - 1 IN
          /\ res' = <<"pop", val, TRUE>>
          /\ IF ti = -1
             THEN /\ nodes' = Tail(nodes)
                  /\ topIndex' = IF Tail(nodes) # <<>> THEN NodeSize - 1 ELSE -1
             ELSE /\ nodes' = nodes /\ topIndex' = ti
       /\ listSize' = listSize - 1
       /\ abs' = SubSeq(abs, 1, Len(abs) - 1)
       /\ Log("pop", 0, abs[Len(abs)], TRUE)

Peek ==
  /\ UNCHANGED <<nodes, topIndex, listSize, abs>>
  /\ IF listSize = 0 THEN res' = <<"peek", 0, FALSE>> /\ Log("peek", 0, 0, FALSE)
     ELSE res' = <<"peek", nodes[1][topIndex + 1], TRUE>> /\ Log("peek", 0, abs[Len(abs)], TRUE)

\* Contains walks from (topNode, topIndex) downwards; below the top block every slot of a block is live
RECURSIVE Walk(_, _, _)
Walk(ns, i, v) == IF ns = <<>> THEN FALSE
                  ELSE IF ns[1][i + 1] = v THEN TRUE
                  ELSE IF i - 1 < 0 THEN Walk(Tail(ns), NodeSize - 1, v) ELSE Walk(ns, i - 1, v)
Contains(v) ==
  /\ UNCHANGED <<nodes, topIndex, listSize, abs>>
  /\ res' = <<"contains", 0, Walk(nodes, topIndex, v)>>
  /\ Log("contains", v, 0, \E i \in 1..Len(abs) : abs[i] = v)

Size == /\ UNCHANGED <<nodes, topIndex, listSize, abs>> /\ res' = <<"size", listSize, TRUE>> /\ Log("size", 0, Len(abs), TRUE)
IsEmpty == /\ UNCHANGED <<nodes, topIndex, listSize, abs>> /\ res' = <<"isempty", 0, listSize = 0>> /\ Log("isempty", 0, 0, abs = <<>>)

Next == /\ Record => Len(hist) < MaxOps
        /\ \/ \E v \in Vals : Push(v) \/ Contains(v)
           \/ Pop \/ Peek \/ Size \/ IsEmpty
Spec == Init /\ [][Next]_vars

\* ---- refinement: the blocks, read from the bottom, are the abstract stack ----
RECURSIVE Flat(_, _)
Flat(ns, ti) == IF ns = <<>> THEN <<>> ELSE Flat(Tail(ns), NodeSize - 1) \o SubSeq(ns[1], 1, ti + 1)
Refines == /\ Flat(nodes, topIndex) = abs
           /\ listSize = Len(abs)
           /\ (nodes = <<>>) = (abs = <<>>)
           /\ nodes # <<>> => topIndex \in 0..(NodeSize - 1)
           /\ nodes = <<>> => topIndex = -1
           /\ Len(nodes) * NodeSize >= Len(abs)                  \* no more blocks than needed ...
           /\ nodes # <<>> => (Len(nodes) - 1) * NodeSize < Len(abs)   \* ... so popped blocks are released
\* every result is the one the abstract stack gives (hist holds the abstract results)
ResultOk == LET h == exp IN
            CASE h.op = "pop" \/ h.op = "peek" -> res[3] = h.ok /\ (h.ok => res[2] = h.r)
              [] h.op = "contains" \/ h.op = "isempty" -> res[3] = h.ok
              [] h.op = "size" -> res[2] = h.r
              [] OTHER -> TRUE
\* for a value stored twice, Contains must not be fooled by stale slots: covered by ResultOk over Vals with repeats

\* simulation: print each complete behaviour with the abstract results, for replay on the compiled emitted stack
Emit == (Record /\ Len(hist) = MaxOps) => PrintT("STACKTRACE " \o ToJson([n |-> NodeSize, ops |-> hist]))

\* view without the history (it only multiplies states)
View == <<nodes, topIndex, listSize, abs, res, exp>>
=============================================================================
