-------------------------------- MODULE LALR --------------------------------
(* LALR(1) parsing tables from first principles, as documented in
   docs/4-parser_theory.md: LR(0) items, closure, goto, the canonical LR(0)
   collection, nullable non-terminals, and the LALR(1) lookahead sets by the
   DeRemer-Pennello relations (DR, reads, includes, lookback); then the
   documented resolution of conflicts by precedence levels
   (docs/1-documentation.md): an earlier level binds tighter, a production
   takes the level of its leftmost terminal (or its own level if it has none
   and is listed as <rule>), within one level @left prefers the reduction,
   @right the shift, @none leaves the conflict unresolved.

   A grammar is a record
     prods  : sequence of [h, b]   h a symbol, b a sequence of symbols
     start  : symbol
     levels : sequence of [assoc, terms (set of symbols), prods (set of [h, b])]
   Symbols are strings with a prefix: "t:" terminal, "n:" non-terminal.
   LalrTable(G) returns the numbered automaton and the action sets:
     syms, terms : sequences (column order)
     kernels     : per state the set of kernel items <<production index, dot>> (production 0 = S' -> start)
     trans[q][j] : successor of state q on syms[j] (0 = none); state 1 is the initial state
     acts[q][j]  : set of actions on terms[j] AFTER conflict resolution; more than one = unresolved conflict
                   <<"s", q2>>  <<"r", production index>>  <<"a", 0>>
     raw[q][j]   : the same before resolution                                   *)
EXTENDS Integers, Sequences, FiniteSets, SequencesExt

End == "t:$end"
IsTerm(x) == SubSeq(x, 1, 2) = "t:"

LalrTable(G) ==
  LET prods == G.prods
      NP == Len(prods)
      HeadOf(p) == IF p = 0 THEN "n:S'" ELSE prods[p].h
      Body(p) == IF p = 0 THEN <<G.start>> ELSE prods[p].b
      NTs == { prods[p].h : p \in 1..NP }
      Syms == NTs \cup UNION { { prods[p].b[i] : i \in 1..Len(prods[p].b) } : p \in 1..NP } \cup {G.start}
      T == { x \in Syms : x \notin NTs }
      DotSym(it) == IF it[2] < Len(Body(it[1])) THEN Body(it[1])[it[2] + 1] ELSE "."
      RECURSIVE Closure(_)
      Closure(I) == LET need == { DotSym(it) : it \in I } \cap NTs
                        add == { <<p, 0>> : p \in { q \in 1..NP : prods[q].h \in need } }
                    IN IF add \subseteq I THEN I ELSE Closure(I \cup add)
      Goto(I, X) == Closure({ <<it[1], it[2] + 1>> : it \in { j \in I : DotSym(j) = X } })
      I0 == Closure({<<0, 0>>})
      RECURSIVE Collect(_, _)
      Collect(done, todo) == IF todo = {} THEN done
                             ELSE LET new == { Goto(I, X) : I \in todo, X \in Syms } \ ({{}} \cup done \cup todo)
                                  IN Collect(done \cup todo, new)
      States == Collect({}, {I0})
      \* nullable
      RECURSIVE NullFix(_)
      NullFix(S) == LET S2 == S \cup { prods[p].h : p \in { q \in 1..NP : \A i \in 1..Len(prods[q].b) : prods[q].b[i] \in S } }
                    IN IF S2 = S THEN S ELSE NullFix(S2)
      Nullable == NullFix({})
      NullSeq(s) == \A i \in 1..Len(s) : s[i] \in Nullable
      \* DeRemer / Pennello
      Trans == { tr \in States \X NTs : Goto(tr[1], tr[2]) # {} }
      DR(tr) == LET r == Goto(tr[1], tr[2]) IN { t \in T : Goto(r, t) # {} } \cup (IF tr[1] = I0 /\ tr[2] = G.start THEN {End} ELSE {})
      Reads(tr) == LET r == Goto(tr[1], tr[2]) IN { <<r, C>> : C \in { D \in Nullable : Goto(r, D) # {} } }
      RECURSIVE Walk(_, _)
      Walk(I, s) == IF s = <<>> THEN I ELSE IF I = {} THEN {} ELSE Walk(Goto(I, s[1]), Tail(s))
      Includes(tr) == { tr2 \in Trans :
                          \E p \in 1..NP : prods[p].h = tr2[2] /\
                            \E i \in 1..Len(prods[p].b) :
                               /\ prods[p].b[i] = tr[2]
                               /\ NullSeq(SubSeq(prods[p].b, i + 1, Len(prods[p].b)))
                               /\ Walk(tr2[1], SubSeq(prods[p].b, 1, i - 1)) = tr[1] }
      RECURSIVE Fix(_, _)
      Fix(f, rel) == LET g == [x \in DOMAIN f |-> f[x] \cup UNION { f[y] : y \in rel[x] }] IN IF g = f THEN f ELSE Fix(g, rel)
      ReadF == Fix([tr \in Trans |-> DR(tr)], [tr \in Trans |-> Reads(tr)])
      FollowF == Fix(ReadF, [tr \in Trans |-> Includes(tr)])
      LA(q, p) == UNION { FollowF[tr] : tr \in { t2 \in Trans : t2[2] = prods[p].h /\ Walk(t2[1], prods[p].b) = q } }
      \* numbering
      StSeq == <<I0>> \o SetToSeq(States \ {I0})
      Num(I) == IF I = {} THEN 0 ELSE CHOOSE k \in 1..Len(StSeq) : StSeq[k] = I
      SymSeq == SetToSeq(Syms)
      TermSeq == SetToSeq(T) \o <<End>>
      RawActs(q, t) ==
        (IF t # End /\ Goto(q, t) # {} THEN {<<"s", Num(Goto(q, t))>>} ELSE {})
        \cup { <<"r", p>> : p \in { r \in 1..NP : <<r, Len(prods[r].b)>> \in q /\ t \in LA(q, r) } }
        \cup (IF t = End /\ <<0, 1>> \in q THEN {<<"a", 0>>} ELSE {})
      \* ---- documented conflict resolution ----
      Terminals(b) == { i \in 1..Len(b) : b[i] \in T }
      HandleOf(a, t) == IF a[1] = "s" THEN <<"t", t>>
                        ELSE LET b == prods[a[2]].b IN
                             IF Terminals(b) # {} THEN <<"t", b[CHOOSE i \in Terminals(b) : \A j \in Terminals(b) : i <= j]>>
                             ELSE <<"p", prods[a[2]]>>
      InLevel(h, lv) == IF h[1] = "t" THEN h[2] \in lv.terms ELSE h[2] \in lv.prods
      LevelOf(h) == LET S == { i \in 1..Len(G.levels) : InLevel(h, G.levels[i]) }
                    IN IF S = {} THEN 0 ELSE CHOOSE i \in S : \A j \in S : i <= j
      Resolve(A, t) ==
        IF Cardinality(A) <= 1 \/ \E a \in A : a[1] = "a" THEN A
        ELSE IF \E a \in A : LevelOf(HandleOf(a, t)) = 0 THEN A
        ELSE LET best == CHOOSE l \in { LevelOf(HandleOf(a, t)) : a \in A } : \A a \in A : l <= LevelOf(HandleOf(a, t))
                 top == { a \in A : LevelOf(HandleOf(a, t)) = best }
                 sh == { a \in top : a[1] = "s" }
                 rd == { a \in top : a[1] = "r" }
                 assoc == G.levels[best].assoc
             IN IF Cardinality(top) = 1 THEN top
                ELSE IF assoc = "left" /\ Cardinality(rd) = 1 THEN rd
                ELSE IF assoc = "right" /\ Cardinality(sh) = 1 THEN sh
                ELSE A
  IN [ syms |-> SymSeq, terms |-> TermSeq,
       kernels |-> [k \in 1..Len(StSeq) |-> { it \in StSeq[k] : it[2] > 0 \/ it[1] = 0 }],
       trans |-> [k \in 1..Len(StSeq) |-> [j \in 1..Len(SymSeq) |-> Num(Goto(StSeq[k], SymSeq[j]))]],
       raw   |-> [k \in 1..Len(StSeq) |-> [j \in 1..Len(TermSeq) |-> RawActs(StSeq[k], TermSeq[j])]],
       acts  |-> [k \in 1..Len(StSeq) |-> [j \in 1..Len(TermSeq) |-> Resolve(RawActs(StSeq[k], TermSeq[j]), TermSeq[j])]] ]
=============================================================================
