"""Shared driver machinery for /verif checks (python3 stdlib only).

A check is a python module checks/Cxx.py with a function run(ck) that uses the
helpers of class Check: build the Go harness against /repo's working tree,
run TLC on a spec of /verif/spec in a scratch directory, collect the lines TLC
prints, replay counterexamples on the real code, write the evidence file and
print VIOLATION / KNOWN-FINDING lines.

Exit codes: 0 property held on everything explored (or only listed known
findings), 1 violation (with a VIOLATION line), 2 infrastructure problem
(never a verdict).
"""
import atexit
import hashlib
import json
import os
import re
import shutil
import subprocess
import sys
import tempfile
import time

VERIF = os.path.dirname(os.path.dirname(os.path.abspath(__file__)))
REPO = os.environ.get("VERIF_REPO", "/repo")
NCPU = int(os.environ.get("VERIF_CPUS", str(os.cpu_count() or 4)))


def short_blanks(text):
    """a text on one line, long runs of blanks abbreviated (padded layouts)"""
    return re.sub(r" {20,}", lambda m: "<%d blanks>" % len(m.group()), text.replace("\n", " "))


class Infra(Exception):
    """An infrastructure failure: exit 2, never a verdict."""


class TlcResult:
    def __init__(self, out, rc, wall):
        self.out = out
        self.rc = rc
        self.wall = wall
        self.generated = 0
        self.distinct = 0
        self.depth = 0
        m = None
        for m in re.finditer(r"(\d+) states generated, (\d+) distinct states found", out):
            pass
        if m:
            self.generated, self.distinct = int(m.group(1)), int(m.group(2))
        m = re.search(r"depth of the complete state graph search is (\d+)", out)
        if m:
            self.depth = int(m.group(1))
        self.ok = "Model checking completed. No error has been found." in out or \
                  "Finished computing initial states" in out and rc == 0

    def printed(self, tag):
        """JSON payloads of the lines  "<tag> {json}"  printed with PrintT(tag \\o " " \\o ToJson(..))."""
        res = []
        pre = '"' + tag + ' '
        for line in self.out.splitlines():
            if line.startswith(pre):
                try:
                    s = json.loads(line)
                except ValueError:
                    continue
                res.append(json.loads(s[len(tag) + 1:]))
        return res

    def error_text(self):
        lines = [l for l in self.out.splitlines() if l.startswith("Error:") or "Exception" in l or "error" in l.lower()]
        return "\n".join(lines[:20])


class Check:
    def __init__(self, pid, level, argv=None):
        import argparse
        ap = argparse.ArgumentParser(prog="check " + pid)
        ap.add_argument("--tier", default=os.environ.get("VERIF_TIER", "quick"), choices=["quick", "thorough"])
        ap.add_argument("--replay", default=None)
        ap.add_argument("--selftest", action="store_true")
        ap.add_argument("--keep", action="store_true", help="keep the scratch directory")
        self.args = ap.parse_args(argv)
        self.pid = pid
        self.level = level
        self.tier = self.args.tier
        self.seed = int(os.environ.get("VERIF_SEED", "1") or "1")
        self.t0 = time.time()
        self.work = tempfile.mkdtemp(prefix="verif-%s-" % pid)
        if not self.args.keep:
            atexit.register(shutil.rmtree, self.work, True)
        self.violations = []      # (what, replay dict)
        self.known_hits = {}      # finding id -> (finding, count, example)
        self.coverage = {"states": 0, "transitions": 0, "traces_validated_against_impl": 0, "samples": []}
        self.assumptions = []
        self.notes = []
        self._harness = None
        self.findings = load_findings(pid)

    # ---------------------------------------------------------------- tools
    def log(self, *a):
        print("[%s %6.1fs]" % (self.pid, time.time() - self.t0), *a, file=sys.stderr, flush=True)

    def path(self, *p):
        return os.path.join(self.work, *p)

    def harness(self, extra_flags=(), name="harness"):
        """Build the Go harness from /repo's current working tree (with the overlay)."""
        key = (name,) + tuple(extra_flags)
        if self._harness and self._harness[0] == key:
            return self._harness[1]
        out = self.path("bin", name)
        env = dict(os.environ, GOFLAGS="-mod=mod", GOPROXY="off", VERIF_REPO=REPO)
        env.pop("GOTOOLCHAIN", None)
        env.pop("GOSUMDB", None)
        p = subprocess.run([os.path.join(VERIF, "bin", "build-harness"), out] + list(extra_flags),
                           env=env, stdout=subprocess.PIPE, stderr=subprocess.STDOUT, text=True)
        if p.returncode != 0 or not os.path.exists(out):
            # the tree under test does not build: that is not a verdict about the property
            raise Infra("harness build failed:\n" + p.stdout[-4000:])
        self._harness = (key, out)
        return out

    def run_harness(self, args, timeout=900, check=True, stdin=None, env=None, cwd=None):
        h = self.harness()
        e = dict(os.environ)
        if env:
            e.update(env)
        try:
            p = subprocess.run([h] + list(args), cwd=cwd or self.work, stdout=subprocess.PIPE, stderr=subprocess.PIPE,
                               text=True, timeout=timeout, input=stdin, env=e)
        except subprocess.TimeoutExpired:
            raise Infra("harness %s timed out after %ds" % (args[0], timeout))
        if check and p.returncode != 0:
            raise Infra("harness %s failed (rc=%d): %s" % (args[0], p.returncode, p.stderr[-3000:]))
        return p

    def run_sharded(self, cmd, infile, outfile, shards=None, extra=(), timeout=900):
        """Run `harness cmd -in infile -out outfile.i -shard i/n` in parallel and concatenate."""
        h = self.harness()
        n = shards or min(NCPU, 16)
        procs = []
        for i in range(n):
            a = [h, cmd, "-in", infile, "-out", "%s.%d" % (outfile, i), "-shard", "%d/%d" % (i, n)] + list(extra)
            procs.append(subprocess.Popen(a, cwd=self.work, stdout=subprocess.PIPE, stderr=subprocess.PIPE, text=True))
        t_end = time.time() + timeout
        outs = []
        for p in procs:
            try:
                o, e = p.communicate(timeout=max(1, t_end - time.time()))
            except subprocess.TimeoutExpired:
                for q in procs:
                    q.kill()
                raise Infra("harness %s timed out" % cmd)
            if p.returncode != 0:
                raise Infra("harness %s failed: %s" % (cmd, e[-3000:]))
            outs.append(o)
        with open(os.path.join(self.work, outfile), "w") as w:
            for i in range(n):
                part = os.path.join(self.work, "%s.%d" % (outfile, i))
                with open(part) as r:
                    shutil.copyfileobj(r, w)
                os.unlink(part)
        return outs

    def stage_specs(self):
        d = self.path("tla")
        if not os.path.isdir(d):
            os.makedirs(d)
            for f in os.listdir(os.path.join(VERIF, "spec")):
                if f.endswith(".tla") or f.endswith(".cfg"):
                    shutil.copy(os.path.join(VERIF, "spec", f), d)
        return d

    def tlc(self, module, cfg=None, constants=None, workers=None, timeout=900, simulate=None, extra=(), depth_first=False,
            count=True, must_finish=True):
        """Run TLC on spec/<module>.tla in the scratch tla directory.  constants: dict written into a cfg
        derived from cfg (or a bare one)."""
        d = self.stage_specs()
        cfgname = cfg or (module + ".cfg")
        if constants is not None:
            base = ""
            src = os.path.join(d, cfgname)
            if os.path.exists(src):
                base = "".join(l for l in open(src) if not l.strip().startswith("CONSTANT"))
            cfgname = "%s_run%d.cfg" % (module, int(time.time() * 1000) % 100000000)
            with open(os.path.join(d, cfgname), "w") as f:
                f.write(base)
                for k, v in constants.items():
                    f.write("CONSTANT %s = %s\n" % (k, v))
        meta = tempfile.mkdtemp(prefix="meta-", dir=self.work)
        cmd = ["timeout", str(timeout), "tlc", "-workers", str(workers or NCPU), "-metadir", meta, "-config", cfgname]
        if simulate:
            cmd += ["-simulate", simulate, "-seed", str(self.seed)]
        cmd += list(extra) + [module + ".tla"]
        env = dict(os.environ)
        if "-Xss" not in env.get("JAVA_TOOL_OPTIONS", ""):     # recursive operators over long sequences need a deep stack
            env["JAVA_TOOL_OPTIONS"] = (env.get("JAVA_TOOL_OPTIONS", "") + " -Xss256m").strip()
        if depth_first:
            env["JAVA_TOOL_OPTIONS"] = (env.get("JAVA_TOOL_OPTIONS", "") + " -Dtlc2.tool.queue.IStateQueue=StateDeque").strip()
        t = time.time()
        p = subprocess.run(cmd, cwd=d, stdout=subprocess.PIPE, stderr=subprocess.STDOUT, text=True, env=env)
        shutil.rmtree(meta, True)
        r = TlcResult(p.stdout, p.returncode, time.time() - t)
        if p.returncode == 124:
            raise Infra("TLC timed out after %ds on %s" % (timeout, module))
        if "StackOverflowError" in p.stdout or "OutOfMemoryError" in p.stdout:
            raise Infra("TLC resource failure on %s:\n%s" % (module, r.error_text()))
        if must_finish and not simulate and p.returncode != 0 and "Invariant" not in p.stdout and "violated" not in p.stdout:
            raise Infra("TLC failed on %s (rc=%d):\n%s" % (module, p.returncode, p.stdout[-3000:]))
        if count:
            self.coverage["states"] += r.distinct
            self.coverage["transitions"] += r.generated
        return r

    # ------------------------------------------------------------- verdicts
    def sample(self, s, limit=12):
        if len(self.coverage["samples"]) < limit:
            self.coverage["samples"].append(s)

    def violation(self, what, replay):
        """A violation confirmed on the real code.  Known findings are filtered here."""
        f = match_finding(self.findings, replay)
        if f is not None:
            cnt, ex = self.known_hits.get(f["id"], (0, None))[0:2] if f["id"] in self.known_hits else (0, None)
            self.known_hits[f["id"]] = (cnt + 1, ex or what, f)
            return False
        self.violations.append((what, replay))
        return True

    def known(self, fid, what):
        """A disagreement fully explained by the listed finding fid (family findings)."""
        f = next((x for x in self.findings if x["id"] == fid and x.get("status") == "known"), None)
        if f is None:
            return False
        cnt, ex = (self.known_hits[fid][0], self.known_hits[fid][1]) if fid in self.known_hits else (0, None)
        self.known_hits[fid] = (cnt + 1, ex or what, f)
        return True

    def write_replay(self, replay):
        d = os.path.join(VERIF, "replays", self.pid) if REPO == "/repo" else os.path.join(tempfile.gettempdir(), "verif-replays", self.pid)
        os.makedirs(d, exist_ok=True)
        blob = json.dumps(replay, sort_keys=True)
        p = os.path.join(d, hashlib.sha1(blob.encode()).hexdigest()[:12] + ".json")
        with open(p, "w") as f:
            json.dump(replay, f, indent=1, sort_keys=True)
        return p

    def finish(self, extra_cov=None, explanation=None):
        cov = self.coverage
        if extra_cov:
            cov.update(extra_cov)
        if not cov["samples"]:
            cov["samples"] = ["(no sample recorded)"]
        cov.setdefault("exhaustive", False)
        if self.level in ("exploration", "fault_enumeration"):
            cov.setdefault("evaluations", 0)
            cov.setdefault("distinct_nontrivial", 0)
            cov.setdefault("rule", "")
        if self.notes:
            cov["notes"] = self.notes
        cov["known_findings_hit"] = {k: v[0] for k, v in self.known_hits.items()}
        ev = {
            "property_id": self.pid, "tier": self.tier, "seed": self.seed, "level": self.level,
            "coverage": cov, "assumptions": self.assumptions,
            "wall_s": round(time.time() - self.t0, 2), "violations": len(self.violations),
        }
        evdir = os.path.join(VERIF, "extras" if self.pid.startswith("X") else "evidence")   # X..: extra checks beyond the listed properties
        if os.environ.get("VERIF_NO_EVIDENCE") or REPO != "/repo":
            evdir = self.work          # a run against another tree (seeded change) must not overwrite the evidence of /repo
        os.makedirs(evdir, exist_ok=True)
        with open(os.path.join(evdir, self.pid + ".json"), "w") as f:
            json.dump(ev, f, indent=1)
        for fid, (cnt, ex, f) in sorted(self.known_hits.items()):
            print("KNOWN-FINDING: property=%s %s: %s (%d case(s) in this run, e.g. %s)" %
                  (self.pid, fid, f.get("what", ""), cnt, ex))
        seen = set()
        for what, replay in self.violations[:50]:
            p = self.write_replay(replay)
            if p in seen:
                continue
            seen.add(p)
            print("VIOLATION property=%s replay=%s" % (self.pid, p))
            print("  " + what[:400])
        sys.stdout.flush()
        return 1 if self.violations else 0


# ------------------------------------------------------------ known findings
def load_findings(pid):
    p = os.path.join(VERIF, "known_findings.json")
    if not os.path.exists(p):
        return []
    data = json.load(open(p))
    return [f for f in data.get("findings", []) if f.get("property") == pid and f.get("status") == "known"]


def match_finding(findings, replay):
    """A finding matches a replay when every key of its `match` equals the replay's value."""
    for f in findings:
        m = f.get("match")
        if not m or f.get("kind") == "family":
            continue
        if all(replay.get(k) == v for k, v in m.items()):
            return f
    return None


def main(pid, level, run):
    try:
        ck = Check(pid, level, sys.argv[2:] if len(sys.argv) > 1 and sys.argv[1] == pid else sys.argv[1:])
    except SystemExit:
        raise
    try:
        rc = run(ck)
        sys.exit(rc)
    except Infra as e:
        print("INFRA %s: %s" % (pid, e), file=sys.stderr)
        sys.exit(2)


def read_ndjson(path):
    with open(path) as f:
        return [json.loads(l) for l in f if l.strip()]


def write_ndjson(path, rows):
    with open(path, "w") as f:
        for r in rows:
            f.write(json.dumps(r) + "\n")
