HOOKS = {
    "guard": "verif",
    "enable": "none needed so far: checks reach unexported symbols with `go build -overlay` (overlay/*.go mapped into /repo's packages at build time, nothing committed in /repo); a build tag `verif` is reserved for in-repo hooks",
    "baseline_off_cmd": "cd /repo && GOFLAGS=-mod=mod GOPROXY=off go test -vet=off -count=1 -timeout 25m ./...",
    "source_commits": [],
    "add_only": True,
}
ENGINES = [
    {"name": "tlc-spec-wellformed", "path": "spec/SpecPoolGen.tla, spec/SpecCheck.tla", "serves_properties": ["C07"], "kind_free_text": "defect-seeded spec generator + TLA+ well-formedness model evaluated by TLC against recorded outcomes (harness/ebnf.go)"},
    {"name": "tlc-precedence", "path": "spec/PrecGen.tla, spec/PrecCheck.tla", "serves_properties": ["C12"], "kind_free_text": "directive-list generator + level comparison in TLC"},
    {"name": "tlc-grammar-eq", "path": "spec/Ebnf.tla, spec/EbnfGen.tla, spec/GrammarEq.tla", "serves_properties": ["C01"],
     "kind_free_text": "abstract syntax + denotation of EBNF right-hand sides in TLA+, spec generator, lock-step fixpoint comparison with productions exported by harness/ebnf.go + harness/specdump.go"},
    {"name": "tlc-lexer", "path": "spec/EbnfLexRef.tla, spec/EbnfLexDet.tla, spec/EbnfScan.tla, spec/LexStream.tla, spec/ScannerProduct.tla",
     "serves_properties": ["C05"], "kind_free_text": "reference token automaton derived in TLA+ from the documented token table; product with the real coded table; trace validation of recorded token streams; harness/lexer.go"},
    {"name": "tlc-scanner-product", "path": "spec/ScannerProduct.tla", "serves_properties": ["C03"],
     "kind_free_text": "TLC product of per-definition reference recognisers with the combined automaton + owner table exported by harness/scanner.go; generator spec/ScannerGen.tla"},
    {"name": "tlc-pattern-grammar", "path": "spec/PatternAccept.tla", "serves_properties": ["C09"],
     "kind_free_text": "TLA+ recogniser of the documented pattern grammar (spec/PatternGrammar.tla) evaluated by TLC over strings swept through the real parsers by harness/pattern.go"},
    {"name": "tlc-product", "path": "spec/RegexProduct.tla", "serves_properties": ["C02", "C10"],
     "kind_free_text": "TLC explores the full product of the TLA+ reference recogniser (partial derivatives, spec/Regex.tla) with automata exported from the real code by harness/regex.go; generators spec/RegexGen.tla, spec/RegexGenSim.tla"},
]
NOTES = ("Every check: TLC-generated cases -> Go harness runs the real emerge code rebuilt from /repo's working tree "
         "(unexported symbols via go build -overlay) -> artifacts as ndjson -> TLC product exploration / trace validation -> "
         "counterexamples replayed on the real code before a VIOLATION line is printed. Exit 2 = infrastructure, never a verdict.")
NOT_APPLICABLE = {}
CHECKS = {
    "C07": {
        "level": "model_checking",
        "engine": "tlc-spec-wellformed",
        "technique": "TLC evaluates the TLA+ well-formedness model (Defects, Defs) on every generated abstract specification and compares with the outcome, diagnostics and Definitions recorded from the real spec.Parse / Spec.DFA()",
        "text": "All orders of <=3 (4 thorough) declarations from a defect-seeded pool, plus a well-formed base with <=2 (3) extra declarations inserted at three positions and at most one base declaration removed (13k specs quick): rejected iff the specification has one of the listed defects, the diagnostics name a present defect and nothing absent (known message shapes only), and on acceptance the Definitions list equals the declared one (value, kind, one per terminal, equal to Grammar.Terminals).",
        "note": "Pool-bounded; predefined pattern texts transcribed in SpecCheck.tla; diagnostics interpreted only for known message shapes.",
    },
    "C12": {
        "level": "model_checking",
        "engine": "tlc-precedence",
        "technique": "TLC compares, per generated specification, the directive list of the abstract spec (TLA+) with Spec.Precedences exported from the real spec.Parse; rule-handle productions compared by bounded language and count",
        "text": "Every sequence (all orders) of <=3 (4) distinct directives from a pool of 9 (all associativities, string/named terminals, rule handles with alternation, extended operators, empty body) placed before, after or interleaved with the declarations of a fixed expression grammar: same levels in source order, same associativity, exactly the listed terminals, and for <r = e> one recorded production per alternative, each a production of the grammar with head r, whose bodies denote exactly Denot(e).",
        "note": "Pool-bounded; language comparison at K=2.",
    },
    "C01": {
        "level": "model_checking",
        "engine": "tlc-grammar-eq",
        "technique": "TLC iterates, per generated specification, the Kleene fixpoint of the TLA+ EBNF denotation and of the production set exported from the real spec.Parse, and compares the bounded languages of every user rule",
        "text": "Every printable right-hand-side tree up to size 4 (5 thorough) over two strings and a nullable non-terminal, every ordered pair of extended operators on a shared sub-expression (one rule / two rules / two different sub-expressions), name-collision specs and recursion/empty-rule specs are printed, parsed by the real spec.Parse, and TLC checks DenotK(rule) = LangK(derived productions) for every user rule on all terminal strings up to length 4 (5).",
        "note": "Bounded tree size and string length K; <= 4 terminals; trusted: harness printer (only parenthesis-free printable trees), TLC. Known finding NAME-CAPTURE is matched by exact input text + exact language difference.",
    },
    "C03": {
        "level": "model_checking",
        "engine": "tlc-scanner-product",
        "technique": "TLC product exploration: one TLA+ reference recogniser per definition x the combined scanner automaton and its owner table from the real Spec.DFA()",
        "text": "For every subset (size <=3 of 14 quick, <=4 of 20 thorough) of a pool of literals, patterns and predefined patterns written as a real specification, TLC explores the full product of the exported combined automaton with the tuple of per-definition reference recognisers and checks in every reachable state: accepting iff some definition matches, owner = the unique matching definition or the unique literal, a conflict error iff a state with two patterns and no literal is reachable (both directions), literals denote their characters with escapes resolved.",
        "note": "Pool-bounded definition sets; string domain ASCII 1..127; trusted: TLC, printer, partition (as C02).",
    },
    "C05": {
        "level": "model_checking",
        "engine": "tlc-lexer",
        "technique": "TLC product of the documented token table (TLA+ reference automaton) with the complete advanceDFA/evalDFA table over all Unicode code points + TLC trace validation of recorded token streams against a reference maximal-munch scanner",
        "text": "Table level: advanceDFA is evaluated for 64 states x every Unicode code point (71 M evaluations), code points are grouped into behaviour classes, and TLC explores the full product of that table (with evalDFA's token kind per state) with the reference automaton built from the token table of docs/5-definitions.md (keywords over identifiers, comments ending at the first */): same acceptance, same winning kind and same liveness in every reachable pair. Stream level: ~10^5 texts (all sequences of <=2 lexical elements from a pool of tokens, near-misses, comments x separators, <=3 in thorough, plus random longer ones) are scanned by the real lexer and each recorded stream (kind, lexeme, offset, line, column, final error position) is validated token by token as a behaviour of spec/EbnfScan.tla.",
        "note": "Trusted: transcription of the token table (EbnfLexRef.tla) incl. two readings where the docs conflict (REGEX not starting with '*', comment bodies ASCII); LF line ends; known finding TOKEN1 (one-letter TOKEN) matched by shape.",
    },
    "C09": {
        "level": "model_checking",
        "engine": "tlc-pattern-grammar",
        "technique": "TLC evaluates a TLA+ recogniser of the documented pattern grammar on every string the real parsers accepted (exhaustive string sweep + canonical prints + single edits)",
        "text": "All strings up to length 4 (5 in thorough, smaller alphabet) over every metacharacter plus representatives are run through nfa.Parse and ast.Parse; TLC decides for each accepted string whether the WHOLE string is a sentence of the documented grammar (spec/PatternGrammar.tla, all parses at once), that both entry points agree, that canonical prints of generated trees are accepted and that descending ranges / min>max repetitions are rejected with an error naming the range.",
        "note": "Bounded string length and alphabet; the grammar transcription in PatternGrammar.tla is trusted (smoke-tested); 'unambiguous form' is the harness printer's form.",
    },
    "C02": {
        "level": "model_checking",
        "technique": "TLC product exploration: TLA+ partial-derivative reference x exported token automaton (and each pipeline stage), full language equality per pattern",
        "text": "For every generated pattern (exhaustive by syntax-tree size over {a,b,.}, every class/escape/quantifier form individually, predefined $NAME patterns, seeded random larger terms from a TLC-simulated builder) TLC visits every reachable state of the product of the TLA+ reference recogniser with the DFA the real regexToDFA pipeline produced, and with the DFA after each stage (ToDFA, Minimize, EliminateDeadStates): acceptance must agree in all of them, which is language equality over ASCII 1..127 plus named code points, not sampling. Disagreements are replayed on the real code.",
        "note": "Bounded pattern space (tree size 3 quick / 4 thorough + families + random); trusted: TLC, harness printer term->pattern text, class table of spec/CharClasses.tla (RE2/POSIX conventions), alphabet partition (re-checked by TLC). Known finding NUL-EPS is matched by an implementation-shaped model of the defect, so other deviations in the same patterns are still reported.",
    },
    "C10": {
        "level": "model_checking",
        "technique": "TLC three-way product: TLA+ reference x NFA-route DFA x followpos-route DFA",
        "text": "Same pattern space as C02 plus a family of nullable operands inside n-ary concatenations, epsilon-matching patterns and cloned repetition ranges; TLC explores the product of the reference recogniser with both nfa.Parse(p).ToDFA() and ast.Parse(p).ToDFA() and requires three-way agreement on acceptance in every reachable product state.",
        "note": "Same bounds and trusted base as C02.",
    },
}
