HOOKS = {
    "guard": "verif",
    "enable": "none needed so far: checks reach unexported symbols with `go build -overlay` (overlay/*.go mapped into /repo's packages at build time, nothing committed in /repo); a build tag `verif` is reserved for in-repo hooks",
    "baseline_off_cmd": "cd /repo && GOFLAGS=-mod=mod GOPROXY=off go test -vet=off -count=1 -timeout 25m ./...",
    "source_commits": [],
    "add_only": True,
}
ENGINES = [
    {"name": "tlc-lalr", "path": "spec/LALR.tla, spec/EbnfDocGrammar.tla, spec/EbnfDocTable.tla, spec/TableIso.tla, spec/LRxRD.tla, spec/ParseTrace.tla, spec/SyntaxErr.tla, spec/FrontEnd.tla",
     "serves_properties": ["C04", "C18", "C20"], "kind_free_text": "LALR(1) construction in TLA+ (DeRemer-Pennello, precedence resolution), table isomorphism, LR x RD product, parse-trace validation with value stack and tree rebuilding, first-error reference"},
    {"name": "tlc-ast", "path": "spec/AstCheck.tla", "serves_properties": ["C11"], "kind_free_text": "generic/typed tree checks against the abstract specification"},
    {"name": "tlc-spec-wellformed", "path": "spec/SpecPoolGen.tla, spec/SpecCheck.tla", "serves_properties": ["C07"], "kind_free_text": "defect-seeded spec generator + TLA+ well-formedness model evaluated by TLC against recorded outcomes (harness/ebnf.go)"},
    {"name": "tlc-precedence", "path": "spec/PrecGen.tla, spec/PrecCheck.tla", "serves_properties": ["C12"], "kind_free_text": "directive-list generator + level comparison in TLC"},
    {"name": "tlc-grammar-eq", "path": "spec/Ebnf.tla, spec/EbnfGen.tla, spec/GrammarEq.tla", "serves_properties": ["C01"],
     "kind_free_text": "abstract syntax + denotation of EBNF right-hand sides in TLA+, spec generator, lock-step fixpoint comparison with productions exported by harness/ebnf.go + harness/specdump.go"},
    {"name": "tlc-lexer", "path": "spec/EbnfLexRef.tla, spec/EbnfLexDet.tla, spec/EbnfScan.tla, spec/LexStream.tla, spec/ScannerProduct.tla",
     "serves_properties": ["C05"], "kind_free_text": "reference token automaton derived in TLA+ from the documented token table; product with the real coded table; trace validation of recorded token streams; harness/lexer.go"},
    {"name": "tlc-scanner-product", "path": "spec/ScannerProduct.tla", "serves_properties": ["C03"],
     "kind_free_text": "TLC product of per-definition reference recognisers with the combined automaton + owner table exported by harness/scanner.go; generator spec/ScannerGen.tla"},
    {"name": "tlc-pattern-grammar", "path": "spec/PatternAccept.tla", "serves_properties": ["C09"],
     "kind_free_text": "TLA+ recogniser of the documented pattern grammar (spec/PatternGrammar.tla) evaluated by TLC over strings swept through the real parsers by harness/pattern.go"},
    {"name": "tlc-product", "path": "spec/RegexProduct.tla", "serves_properties": ["C02", "C10"],
     "kind_free_text": "TLC explores the full product of the TLA+ reference recogniser (partial derivatives, spec/Regex.tla) with automata exported from the real code by harness/regex.go; generators spec/RegexGen.tla, spec/RegexGenSim.tla"},
]
NOTES = ("Every check: TLC-generated cases -> Go harness runs the real emerge code rebuilt from /repo's working tree "
         "(unexported symbols via go build -overlay) -> artifacts as ndjson -> TLC product exploration / trace validation -> "
         "counterexamples replayed on the real code before a VIOLATION line is printed. Exit 2 = infrastructure, never a verdict.")
NOT_APPLICABLE = {}
CHECKS = {
    "C06": {
        "level": "model_checking",
        "engine": "tlc-lalr",
        "technique": "TLC builds the LALR(1) table of each derived grammar + recorded precedence levels from first principles and compares with what the real Spec.LALRParsingTable() returned: conflict iff unresolved, state-by-state table isomorphism, LR driver on the returned table vs bounded language, operator grouping",
        "text": "26 textbook grammars (SLR, LALR-not-SLR, LR(1)-not-LALR, ambiguous with/without directives), every precedence table over 3 binary operators (ordered partitions x associativities) and 1500 (12000) two-rule grammars drawn from the complete space of 177k: emerge must reject with a conflict report exactly when a conflict remains after the documented resolution; a returned table must be cell for cell the table TLC builds; the shift-reduce driver on the RETURNED table must accept exactly the grammar's sentences for all terminal strings up to length 4 (5); x o1 x o2 x must be grouped as declared.",
        "note": "Known finding SUPERSET-GOTO (dependency) is matched only on grammars satisfying its trigger condition (nested kernels), computed by TLC. Grammars on which the dependency's table builder panics (non-generating non-terminals) are skipped here and reported under C14.",
    },
    "C04": {
        "level": "model_checking",
        "engine": "tlc-lalr",
        "technique": "TLC builds the LALR(1) table of the documented EBNF grammar (DeRemer-Pennello + documented precedence resolution) and explores (a) the pair graph with the probed embedded ACTION/GOTO, (b) the product of the LR driver on the embedded tables with a recursive-descent recogniser over all token sequences, (c) validates real parse traces and rebuilds their trees",
        "text": "Tables: every (state, terminal) and (state, non-terminal) of states 0..255 is probed on the real ACTION/GOTO (and case labels are read from the source); TLC pairs the states with the item sets of the table it builds from the documented grammar and precedence list and compares every cell, the driver checks the pairing is one-to-one with no extra rows. Language/disambiguation: the LR driver on the embedded tables in lock-step with an RD recogniser written from the documentation over ALL token sequences up to 12 (14) tokens - same acceptance and same error token; and the reductions recorded from the real parser on ~1000 generated specifications are validated as the documented LALR parse and rebuilt into a tree that must equal the tree that was written (juxtaposition over |, | to the right). Regeneration: the generator is run and compared byte for byte.",
        "note": "Trusted: transcription of the grammar/precedence list (EbnfDocGrammar.tla), the RD recogniser, TLC. The byte comparison is an observation step, not decided by the specification.",
    },
    "C11": {
        "level": "model_checking",
        "engine": "tlc-ast",
        "technique": "TLC checks the generic parse tree and the typed tree exported from the real code against the abstract specification (leaves/positions, documented productions, normal form, bounded language of the typed tree vs derived grammar); round trip observed with the real Equal",
        "text": "For ~1500 generated specifications (all printable rhs trees to size 4/5, sharing families, recursion, empty rules, no declarations at all, every declaration kind in several orders): the leaves of ParseAndBuildAST's tree are exactly the printed tokens with positions and every node applies a documented production; ast.Parse's tree equals Norm(abstract spec); printing it and parsing again gives the same structure and the real Equal agrees; the bounded language (K=4) of every rule of the typed tree equals that of the productions spec.Parse derives.",
        "note": "The typed tree has no printer of its own: the harness printer is used for the round trip (trusted). Name-collision specs are left to C01.",
    },
    "C18": {
        "level": "model_checking",
        "engine": "tlc-lalr",
        "technique": "TLC trace validation of recorded callback streams (token/production/evaluation callbacks, with injected failures) against the shift-reduce driver on the TLC-built LALR(1) table of the documented grammar, with a value stack",
        "text": "Every generated specification is parsed by the real Parse and ParseAndEvaluate with recording callbacks; each event must be the enabled step of the documented derivation: token callbacks once per source token in order with exact lexeme/position, production callbacks in reverse rightmost derivation order, evaluation callbacks with exactly the body values left to right and head value/position as specified; for a subset a failure is injected at EVERY callback index: the trace must stop exactly there and the returned error must wrap the injected one.",
        "note": "Expected derivation comes from the TLC-built table, independent of the embedded switch; token list from the harness printer.",
    },
    "C20": {
        "level": "model_checking",
        "engine": "tlc-lalr",
        "technique": "TLC computes the first offending token with the LR driver on the documented LALR(1) table (and, for texts, the reference scanner feeding it) and compares with the position in the real diagnostics",
        "text": "Every single-token insertion, replacement (all 22 kinds), deletion and truncation at every position of ~40 (150) valid specifications: parser.Parse, ast.Parse and spec.Parse must reject exactly when the documented grammar does, naming file:line:column of the first token with no valid continuation, and for a premature end no token of the text. Every stray/unterminated lexical element (18 kinds) inserted at every token boundary, with and without separating blanks: spec.Parse's diagnostic must carry the position the documented front end (reference scanner + LR driver) gives.",
        "note": "Known finding TOKEN1 applies (one-letter TOKEN). Replay of a single case is not wired; the replay file holds the text.",
    },
    "C07": {
        "level": "model_checking",
        "engine": "tlc-spec-wellformed",
        "technique": "TLC evaluates the TLA+ well-formedness model (Defects, Defs) on every generated abstract specification and compares with the outcome, diagnostics and Definitions recorded from the real spec.Parse / Spec.DFA()",
        "text": "All orders of <=3 (4 thorough) declarations from a defect-seeded pool, plus a well-formed base with <=2 (3) extra declarations inserted at three positions and at most one base declaration removed (13k specs quick): rejected iff the specification has one of the listed defects, the diagnostics name a present defect and nothing absent (known message shapes only), and on acceptance the Definitions list equals the declared one (value, kind, one per terminal, equal to Grammar.Terminals).",
        "note": "Pool-bounded; predefined pattern texts transcribed in SpecCheck.tla; diagnostics interpreted only for known message shapes.",
    },
    "C12": {
        "level": "model_checking",
        "engine": "tlc-precedence",
        "technique": "TLC compares, per generated specification, the directive list of the abstract spec (TLA+) with Spec.Precedences exported from the real spec.Parse; rule-handle productions compared by bounded language and count",
        "text": "Every sequence (all orders) of <=3 (4) distinct directives from a pool of 9 (all associativities, string/named terminals, rule handles with alternation, extended operators, empty body) placed before, after or interleaved with the declarations of a fixed expression grammar: same levels in source order, same associativity, exactly the listed terminals, and for <r = e> one recorded production per alternative, each a production of the grammar with head r, whose bodies denote exactly Denot(e).",
        "note": "Pool-bounded; language comparison at K=2.",
    },
    "C01": {
        "level": "model_checking",
        "engine": "tlc-grammar-eq",
        "technique": "TLC iterates, per generated specification, the Kleene fixpoint of the TLA+ EBNF denotation and of the production set exported from the real spec.Parse, and compares the bounded languages of every user rule",
        "text": "Every printable right-hand-side tree up to size 4 (5 thorough) over two strings and a nullable non-terminal, every ordered pair of extended operators on a shared sub-expression (one rule / two rules / two different sub-expressions), name-collision specs and recursion/empty-rule specs are printed, parsed by the real spec.Parse, and TLC checks DenotK(rule) = LangK(derived productions) for every user rule on all terminal strings up to length 4 (5).",
        "note": "Bounded tree size and string length K; <= 4 terminals; trusted: harness printer (only parenthesis-free printable trees), TLC. Known finding NAME-CAPTURE is matched by exact input text + exact language difference.",
    },
    "C03": {
        "level": "model_checking",
        "engine": "tlc-scanner-product",
        "technique": "TLC product exploration: one TLA+ reference recogniser per definition x the combined scanner automaton and its owner table from the real Spec.DFA()",
        "text": "For every subset (size <=3 of 14 quick, <=4 of 20 thorough) of a pool of literals, patterns and predefined patterns written as a real specification, TLC explores the full product of the exported combined automaton with the tuple of per-definition reference recognisers and checks in every reachable state: accepting iff some definition matches, owner = the unique matching definition or the unique literal, a conflict error iff a state with two patterns and no literal is reachable (both directions), literals denote their characters with escapes resolved.",
        "note": "Pool-bounded definition sets; string domain ASCII 1..127; trusted: TLC, printer, partition (as C02).",
    },
    "C05": {
        "level": "model_checking",
        "engine": "tlc-lexer",
        "technique": "TLC product of the documented token table (TLA+ reference automaton) with the complete advanceDFA/evalDFA table over all Unicode code points + TLC trace validation of recorded token streams against a reference maximal-munch scanner",
        "text": "Table level: advanceDFA is evaluated for 64 states x every Unicode code point (71 M evaluations), code points are grouped into behaviour classes, and TLC explores the full product of that table (with evalDFA's token kind per state) with the reference automaton built from the token table of docs/5-definitions.md (keywords over identifiers, comments ending at the first */): same acceptance, same winning kind and same liveness in every reachable pair. Stream level: ~10^5 texts (all sequences of <=2 lexical elements from a pool of tokens, near-misses, comments x separators, <=3 in thorough, plus random longer ones) are scanned by the real lexer and each recorded stream (kind, lexeme, offset, line, column, final error position) is validated token by token as a behaviour of spec/EbnfScan.tla.",
        "note": "Trusted: transcription of the token table (EbnfLexRef.tla) incl. two readings where the docs conflict (REGEX not starting with '*', comment bodies ASCII); LF line ends; known finding TOKEN1 (one-letter TOKEN) matched by shape.",
    },
    "C09": {
        "level": "model_checking",
        "engine": "tlc-pattern-grammar",
        "technique": "TLC evaluates a TLA+ recogniser of the documented pattern grammar on every string the real parsers accepted (exhaustive string sweep + canonical prints + single edits)",
        "text": "All strings up to length 4 (5 in thorough, smaller alphabet) over every metacharacter plus representatives are run through nfa.Parse and ast.Parse; TLC decides for each accepted string whether the WHOLE string is a sentence of the documented grammar (spec/PatternGrammar.tla, all parses at once), that both entry points agree, that canonical prints of generated trees are accepted and that descending ranges / min>max repetitions are rejected with an error naming the range.",
        "note": "Bounded string length and alphabet; the grammar transcription in PatternGrammar.tla is trusted (smoke-tested); 'unambiguous form' is the harness printer's form.",
    },
    "C02": {
        "level": "model_checking",
        "technique": "TLC product exploration: TLA+ partial-derivative reference x exported token automaton (and each pipeline stage), full language equality per pattern",
        "text": "For every generated pattern (exhaustive by syntax-tree size over {a,b,.}, every class/escape/quantifier form individually, predefined $NAME patterns, seeded random larger terms from a TLC-simulated builder) TLC visits every reachable state of the product of the TLA+ reference recogniser with the DFA the real regexToDFA pipeline produced, and with the DFA after each stage (ToDFA, Minimize, EliminateDeadStates): acceptance must agree in all of them, which is language equality over ASCII 1..127 plus named code points, not sampling. Disagreements are replayed on the real code.",
        "note": "Bounded pattern space (tree size 3 quick / 4 thorough + families + random); trusted: TLC, harness printer term->pattern text, class table of spec/CharClasses.tla (RE2/POSIX conventions), alphabet partition (re-checked by TLC). Known finding NUL-EPS is matched by an implementation-shaped model of the defect, so other deviations in the same patterns are still reported.",
    },
    "C10": {
        "level": "model_checking",
        "technique": "TLC three-way product: TLA+ reference x NFA-route DFA x followpos-route DFA",
        "text": "Same pattern space as C02 plus a family of nullable operands inside n-ary concatenations, epsilon-matching patterns and cloned repetition ranges; TLC explores the product of the reference recogniser with both nfa.Parse(p).ToDFA() and ast.Parse(p).ToDFA() and requires three-way agreement on acceptance in every reachable product state.",
        "note": "Same bounds and trusted base as C02.",
    },
}
