package main

import (
	"encoding/json"
	"flag"
	"fmt"
	"os"
	"sort"
	"strings"

	regexparser "github.com/gardenbed/emerge/internal/regex/parser"

	"github.com/gardenbed/emerge/internal/regex/parser/ast"
	"github.com/gardenbed/emerge/internal/regex/parser/nfa"
)

// PatRec is one string with the verdict of both real entry points ("" = accepted, else the error text).
type PatRec struct {
	S     []string `json:"s"`
	Text  string   `json:"text"`
	Kind  string   `json:"kind"`
	NFA   string   `json:"nfa"`
	AST   string   `json:"ast"`
	Named bool     `json:"named"`
}

func parseBoth(s string) (string, string) {
	en, ea := "", ""
	if err := safely(func() error { _, err := nfa.Parse(s); return err }); err != nil {
		en = err.Error()
		if en == "" {
			en = "error"
		}
	}
	if err := safely(func() error { _, err := ast.Parse(s); return err }); err != nil {
		ea = err.Error()
		if ea == "" {
			ea = "error"
		}
	}
	return en, ea
}

func chars(s string) []string {
	out := []string{}
	for _, r := range s {
		out = append(out, string(r))
	}
	return out
}

func cmdPatternSweep(args []string) error {
	fs := flag.NewFlagSet("pattern-sweep", flag.ContinueOnError)
	alphabet := fs.String("alphabet", "", "characters of the reduced alphabet")
	maxlen := fs.Int("maxlen", 3, "maximum length")
	out := fs.String("out", "", "output ndjson (accepted or disagreeing strings only)")
	_ = fs.String("in", "", "unused")
	shard := fs.String("shard", "0/1", "i/n")
	if err := fs.Parse(args); err != nil {
		return err
	}
	var shI, shN int
	if _, err := fmt.Sscanf(*shard, "%d/%d", &shI, &shN); err != nil || shN < 1 {
		return fmt.Errorf("bad -shard")
	}
	al := []rune(*alphabet)
	w, err := newNDWriter(*out)
	if err != nil {
		return err
	}
	total, acc, panics := 0, 0, 0
	idx := 0
	for l := 0; l <= *maxlen; l++ {
		n := 1
		for i := 0; i < l; i++ {
			n *= len(al)
		}
		for k := 0; k < n; k++ {
			idx++
			if idx%shN != shI {
				continue
			}
			buf := make([]rune, l)
			x := k
			for i := l - 1; i >= 0; i-- {
				buf[i] = al[x%len(al)]
				x /= len(al)
			}
			s := string(buf)
			total++
			en, ea := parseBoth(s)
			if strings.HasPrefix(en, "panic") || strings.HasPrefix(ea, "panic") {
				panics++
			}
			if en == "" || ea == "" || (en == "") != (ea == "") {
				acc++
				if err := w.Write(PatRec{S: chars(s), Text: s, Kind: "sweep", NFA: en, AST: ea}); err != nil {
					return err
				}
			}
		}
	}
	fmt.Printf("SWEPT %d ACCEPTED %d PANICS %d\n", total, acc, panics)
	return w.Close()
}

// pattern-list: verdicts for an explicit list {text, kind, expect}
func cmdPatternList(args []string) error {
	fs := flag.NewFlagSet("pattern-list", flag.ContinueOnError)
	in := fs.String("in", "", "ndjson of {text, kind, expect}")
	out := fs.String("out", "", "ndjson of PatRec")
	shard := fs.String("shard", "0/1", "i/n")
	if err := fs.Parse(args); err != nil {
		return err
	}
	var shI, shN int
	if _, err := fmt.Sscanf(*shard, "%d/%d", &shI, &shN); err != nil || shN < 1 {
		return fmt.Errorf("bad -shard")
	}
	w, err := newNDWriter(*out)
	if err != nil {
		return err
	}
	i := 0
	err = readNDJSON(*in, func(line []byte) error {
		i++
		if i%shN != shI {
			return nil
		}
		var r struct {
			Text   string `json:"text"`
			Kind   string `json:"kind"`
			Expect string `json:"expect"`
		}
		if err := json.Unmarshal(line, &r); err != nil {
			return err
		}
		en, ea := parseBoth(r.Text)
		named := r.Expect != "" && strings.Contains(en, r.Expect) && strings.Contains(ea, r.Expect) &&
			strings.Contains(en, "range") && strings.Contains(ea, "range")
		return w.Write(PatRec{S: chars(r.Text), Text: r.Text, Kind: r.Kind, NFA: en, AST: ea, Named: named})
	})
	if err != nil {
		return err
	}
	return w.Close()
}

// class-keys: the keys of the implementation's rune-class table (names it could mistake for documented categories)
func cmdClassKeys(args []string) error {
	keys := []string{}
	for k := range regexparser.RuneClasses {
		keys = append(keys, k)
	}
	sort.Strings(keys)
	return json.NewEncoder(os.Stdout).Encode(keys)
}

func init() {
	commands["class-keys"] = cmdClassKeys
	commands["pattern-sweep"] = cmdPatternSweep
	commands["pattern-list"] = cmdPatternList
}
