package main

import (
	"encoding/json"
	"flag"
	"fmt"
	"strings"

	auto "github.com/moorara/algo/automata"

	"github.com/gardenbed/emerge/internal/ebnf/parser/spec"
)

type ScanDef struct {
	Name string   `json:"name"`
	Kind string   `json:"kind"` // str | inl | pat | pre
	Term []Factor `json:"term"`
	Pre  string   `json:"pre"`
}

type ScanCase struct {
	Defs []ScanDef `json:"defs"`
}

type ScanAuto struct {
	Err   string  `json:"err"`
	Start int     `json:"start"`
	Acc   []bool  `json:"acc"`
	D     [][]int `json:"d"`
	Owner []int   `json:"owner"` // per state: index (1-based) of the definition owning it, 0 = none, -1 = a terminal that is not a definition
}

type ScanArt struct {
	ID       string    `json:"id"`
	Text     string    `json:"text"`
	Defs     []ScanDef `json:"defs"`
	Classes  []Class   `json:"classes"`
	Auto     ScanAuto  `json:"auto"`
	Perr     string    `json:"perr"`
	Conflict bool      `json:"conflict"`
	Live     bool      `json:"live"` // strict liveness comparison (the scanner follows the automaton while it is live)
}

// literalSource writes the characters of a literal term as EBNF string source (quotes and backslashes escaped).
func literalSource(t []Factor) (string, error) {
	var b strings.Builder
	for _, f := range t {
		if f.K != "set" || f.Neg || len(f.S) != 1 || f.S[0].T != "ch" {
			return "", fmt.Errorf("not a literal term")
		}
		c := f.S[0].Lo
		if c < 0x21 || c > 0x7E {
			return "", fmt.Errorf("character %d cannot be written in a string literal", c)
		}
		if c == '"' || c == '\\' {
			b.WriteByte('\\')
		}
		b.WriteByte(byte(c))
	}
	return b.String(), nil
}

// ebnfPattern prints a term as a pattern that can be written between slashes in a specification.
func ebnfPattern(t []Factor) string {
	p := printPattern(RegexCase{Term: t})
	return strings.ReplaceAll(p, "/", `\x2F`)
}

// specText builds the minimal specification declaring the definitions; termName[i] is the grammar terminal of definition i.
func specText(defs []ScanDef) (string, []string, error) {
	var b strings.Builder
	b.WriteString("grammar t;\n")
	names := make([]string, len(defs))
	var use []string
	for i, d := range defs {
		switch d.Kind {
		case "str":
			src, err := literalSource(d.Term)
			if err != nil {
				return "", nil, err
			}
			fmt.Fprintf(&b, "%s = \"%s\";\n", d.Name, src)
			names[i] = d.Name
			use = append(use, d.Name)
		case "inl":
			src, err := literalSource(d.Term)
			if err != nil {
				return "", nil, err
			}
			names[i] = src
			use = append(use, `"`+src+`"`)
		case "pat":
			fmt.Fprintf(&b, "%s = /%s/;\n", d.Name, ebnfPattern(d.Term))
			names[i] = d.Name
			use = append(use, d.Name)
		case "pre":
			fmt.Fprintf(&b, "%s = %s;\n", d.Name, d.Pre)
			names[i] = d.Name
			use = append(use, d.Name)
		default:
			return "", nil, fmt.Errorf("unknown kind %q", d.Kind)
		}
	}
	fmt.Fprintf(&b, "start = %s;\n", strings.Join(use, " "))
	return b.String(), names, nil
}

func cmdScannerExport(args []string) error {
	fs := flag.NewFlagSet("scanner-export", flag.ContinueOnError)
	in := fs.String("in", "gen_scanner.ndjson", "")
	out := fs.String("out", "scanner.ndjson", "")
	shard := fs.String("shard", "0/1", "i/n")
	if err := fs.Parse(args); err != nil {
		return err
	}
	var shI, shN int
	if _, err := fmt.Sscanf(*shard, "%d/%d", &shI, &shN); err != nil || shN < 1 {
		return fmt.Errorf("bad -shard")
	}
	w, err := newNDWriter(*out)
	if err != nil {
		return err
	}
	n := 0
	err = readNDJSON(*in, func(line []byte) error {
		n++
		if n%shN != shI {
			return nil
		}
		var c ScanCase
		if err := json.Unmarshal(line, &c); err != nil {
			return err
		}
		for i := range c.Defs {
			c.Defs[i].Term = normTerm(c.Defs[i].Term)
		}
		text, names, err := specText(c.Defs)
		if err != nil {
			return err
		}
		art := ScanArt{ID: fmt.Sprintf("S-%d", n), Text: text, Defs: c.Defs,
			Auto: ScanAuto{Acc: []bool{}, D: [][]int{}, Owner: []int{}}}
		var d *auto.DFA
		var termMap map[string][]auto.State
		perr := safely(func() error {
			s, err := spec.Parse("t.ebnf", strings.NewReader(text))
			if err != nil {
				return err
			}
			dd, tm, err := s.DFA()
			if err != nil {
				art.Auto.Err = err.Error()
				return nil
			}
			d = dd
			termMap = map[string][]auto.State{}
			for t, ss := range tm {
				termMap[string(t)] = ss
			}
			return nil
		})
		if perr != nil {
			art.Perr = perr.Error()
		}
		art.Conflict = strings.Contains(art.Auto.Err, "conflicting definitions")
		var sets []Factor
		for _, df := range c.Defs {
			collectSets(df.Term, &sets)
		}
		var dense *denseDFA
		if d != nil {
			dense = newDense(d)
		}
		art.Classes = partition(sets, []*denseDFA{dense}, extrasOf(sets, []*auto.DFA{d}))
		if dense != nil {
			a := exportAuto("scanner", dense, "", art.Classes)
			art.Auto.Start, art.Auto.Acc, art.Auto.D = a.Start, a.Acc, a.D
			art.Auto.Owner = make([]int, len(dense.states))
			for t, ss := range termMap {
				idx := -1
				for i, nm := range names {
					if nm == t {
						idx = i + 1
					}
				}
				for _, s := range ss {
					k := dense.index[s] - 1
					if k >= 0 {
						if art.Auto.Owner[k] != 0 {
							art.Auto.Owner[k] = -2 // two terminals own one state
						} else {
							art.Auto.Owner[k] = idx
						}
					}
				}
			}
		}
		return w.Write(art)
	})
	if err != nil {
		return err
	}
	return w.Close()
}

func init() {
	commands["scanner-export"] = cmdScannerExport
}
