module github.com/gardenbed/emerge/verifharness

go 1.24.0

require (
	github.com/gardenbed/emerge v0.0.0
	github.com/moorara/algo v0.11.0
)

require golang.org/x/exp v0.0.0-20250218142911-aa4b98e5adaa // indirect

replace github.com/gardenbed/emerge => /repo
