package main

import (
	"flag"
	"fmt"
	"go/ast"
	goparser "go/parser"
	"go/token"
	"os"
	"strconv"

	"github.com/moorara/algo/grammar"
	"github.com/moorara/algo/parser/lr"

	ebnfparser "github.com/gardenbed/emerge/internal/ebnf/parser"
)

const scanStates = 256

func symName(s grammar.Symbol) string {
	if s.IsTerminal() {
		if s.Equal(grammar.Endmarker) {
			return "t:$end"
		}
		return "t:" + string(s.(grammar.Terminal))
	}
	return "n:" + string(s.(grammar.NonTerminal))
}

type ImplTable struct {
	Terms     []string              `json:"terms"`
	NTs       []string              `json:"nts"`
	Prods     []map[string]any      `json:"prods"`
	Act       []map[string][]any    `json:"act"`  // index state+1: terminal -> [kind, arg]
	Goto      []map[string]int      `json:"goto"` // index state+1: non-terminal -> next
	NEntries  int                   `json:"nentries"`
	Labels    map[string][]string   `json:"labels"` // case labels found in the source that the probes do not cover
	MaxState  int                   `json:"maxstate"`
}

// caseLabels collects the integer and string case labels of the switch statements of function fn.
func caseLabels(file, fn string) (ints []int, strs []string, err error) {
	fset := token.NewFileSet()
	f, err := goparser.ParseFile(fset, file, nil, 0)
	if err != nil {
		return nil, nil, err
	}
	for _, d := range f.Decls {
		fd, ok := d.(*ast.FuncDecl)
		if !ok || fd.Name.Name != fn {
			continue
		}
		ast.Inspect(fd, func(n ast.Node) bool {
			cc, ok := n.(*ast.CaseClause)
			if !ok {
				return true
			}
			for _, e := range cc.List {
				switch v := e.(type) {
				case *ast.BasicLit:
					if v.Kind == token.INT {
						i, _ := strconv.Atoi(v.Value)
						ints = append(ints, i)
					} else if v.Kind == token.STRING {
						s, _ := strconv.Unquote(v.Value)
						strs = append(strs, s)
					}
				case *ast.SelectorExpr: // grammar.Endmarker
					strs = append(strs, "$end")
				}
			}
			return true
		})
	}
	return
}

func cmdEbnfTable(args []string) error {
	fs := flag.NewFlagSet("ebnf-table", flag.ContinueOnError)
	out := fs.String("out", "impltable.json", "")
	src := fs.String("src", "/repo/internal/ebnf/parser/parsing_table.go", "")
	if err := fs.Parse(args); err != nil {
		return err
	}
	t := ImplTable{Labels: map[string][]string{}}
	terms := append([]grammar.Terminal{}, ebnfparser.VerifTerminals()...)
	terms = append(terms, grammar.Endmarker, grammar.Terminal("@bogus"))
	for _, a := range terms {
		t.Terms = append(t.Terms, symName(a))
	}
	nts := append([]grammar.NonTerminal{}, ebnfparser.VerifNonTerminals()...)
	nts = append(nts, grammar.NonTerminal("bogus"))
	for _, A := range nts {
		t.NTs = append(t.NTs, symName(A))
	}
	for _, p := range ebnfparser.VerifProductions() {
		b := []string{}
		for _, s := range p.Body {
			b = append(b, symName(s))
		}
		t.Prods = append(t.Prods, map[string]any{"h": symName(p.Head), "b": b})
	}
	maxState := scanStates
	ints, strs, err := caseLabels(*src, "ACTION")
	if err == nil {
		i2, s2, _ := caseLabels(*src, "GOTO")
		ints, strs = append(ints, i2...), append(strs, s2...)
		known := map[string]bool{}
		for _, a := range terms {
			known[string(a)] = true
		}
		known["$end"] = true
		for _, A := range nts {
			known[string(A)] = true
		}
		for _, i := range ints {
			if i >= maxState {
				maxState = i + 1
			}
		}
		for _, s := range strs {
			if !known[s] {
				t.Labels["unknown_symbols"] = append(t.Labels["unknown_symbols"], s)
			}
		}
	} else {
		t.Labels["source_unreadable"] = []string{err.Error()}
	}
	t.MaxState = maxState
	for s := 0; s < maxState; s++ {
		row := map[string][]any{}
		for _, a := range terms {
			typ, arg, err := ebnfparser.ACTION(s, a)
			if err != nil {
				continue
			}
			var kind string
			switch typ {
			case lr.SHIFT:
				kind = "s"
			case lr.REDUCE:
				kind = "r"
			case lr.ACCEPT:
				kind = "a"
			default:
				kind = "e"
			}
			row[symName(a)] = []any{kind, arg}
			t.NEntries++
		}
		t.Act = append(t.Act, row)
		grow := map[string]int{}
		for _, A := range nts {
			if n := ebnfparser.GOTO(s, A); n != -1 {
				grow[symName(A)] = n
				t.NEntries++
			}
		}
		t.Goto = append(t.Goto, grow)
	}
	if err := writeJSON(*out, t); err != nil {
		return err
	}
	fmt.Fprintf(os.Stdout, "TABLE %d entries over %d probed states\n", t.NEntries, maxState)
	return nil
}

func init() {
	commands["ebnf-table"] = cmdEbnfTable
}
