package main

import (
	"encoding/json"
	"flag"
	"fmt"
	"io"
	"regexp"
	"strings"

	ebnflexer "github.com/gardenbed/emerge/internal/ebnf/lexer"
)

const lexStates = 64

// lexer-table: tabulates the coded transition function of emerge's EBNF scanner for every
// state 0..63 and EVERY Unicode code point (NUL and surrogates excluded), groups the code points
// into classes with identical behaviour, and exports the table with the token kind evalDFA
// attributes to each state, in the format of ScannerProduct.tla.
func cmdLexerTable(args []string) error {
	fs := flag.NewFlagSet("lexer-table", flag.ContinueOnError)
	in := fs.String("in", "gen_lexref.ndjson", "reference definitions (only used for the partition)")
	out := fs.String("out", "scanner.ndjson", "")
	if err := fs.Parse(args); err != nil {
		return err
	}
	var c ScanCase
	if err := readNDJSON(*in, func(line []byte) error { return json.Unmarshal(line, &c) }); err != nil {
		return err
	}
	for i := range c.Defs {
		c.Defs[i].Term = normTerm(c.Defs[i].Term)
	}
	var sets []Factor
	for _, d := range c.Defs {
		collectSets(d.Term, &sets)
	}
	// signature of every code point
	sig := map[string]int{}
	var classes []Class
	var cols [][]int
	evals := 0
	add := func(r int) {
		col := make([]int, lexStates)
		var b strings.Builder
		for s := 0; s < lexStates; s++ {
			n := ebnflexer.VerifAdvanceDFA(s, rune(r))
			evals++
			if n < -1 || n >= lexStates {
				n = lexStates // out-of-range target: kept distinct, reported by the product as a non-state
			}
			col[s] = n
			fmt.Fprintf(&b, "%d,", n)
		}
		for _, f := range sets {
			if setHas(f, r) {
				b.WriteByte('1')
			} else {
				b.WriteByte('0')
			}
		}
		k := b.String()
		ci, ok := sig[k]
		if !ok {
			ci = len(classes)
			sig[k] = ci
			classes = append(classes, Class{Rep: r})
			cols = append(cols, col)
		}
		cl := &classes[ci]
		if n := len(cl.M); n > 0 && cl.M[n-1][1] == r-1 {
			cl.M[n-1][1] = r
		} else {
			cl.M = append(cl.M, [2]int{r, r})
		}
	}
	for r := 1; r <= 0x10FFFF; r++ {
		if r >= 0xD800 && r <= 0xDFFF {
			continue
		}
		add(r)
	}
	art := ScanArt{ID: "EBNF-LEXER", Text: "", Defs: c.Defs, Classes: classes, Live: true}
	art.Auto = ScanAuto{Start: 1, Acc: make([]bool, lexStates), D: make([][]int, lexStates), Owner: make([]int, lexStates)}
	for s := 0; s < lexStates; s++ {
		row := make([]int, len(classes))
		for j := range classes {
			n := cols[j][s]
			row[j] = n + 1 // -1 (error state) -> 0
		}
		art.Auto.D[s] = row
		kind := ebnflexer.VerifEvalKind(s)
		if kind != "ERR" {
			art.Auto.Acc[s] = true
			art.Auto.Owner[s] = -1
			for i, d := range c.Defs {
				if d.Name == kind {
					art.Auto.Owner[s] = i + 1
				}
			}
		}
	}
	w, err := newNDWriter(*out)
	if err != nil {
		return err
	}
	if err := w.Write(art); err != nil {
		return err
	}
	fmt.Printf("TABULATED %d transitions, %d classes\n", evals, len(classes))
	return w.Close()
}

func init() {
	commands["lexer-table"] = cmdLexerTable
}

// ---- stream level: record what the real EBNF lexer yields on a text ----

type LexTok struct {
	K   string `json:"k"`
	Lx  []int  `json:"lx"`
	Off int    `json:"off"`
	Ln  int    `json:"ln"`
	Col int    `json:"col"`
}

type LexStream struct {
	ID   string   `json:"id"`
	Cps  []int    `json:"cps"`
	Toks []LexTok `json:"toks"`
	End  string   `json:"end"` // eof | err
	Eln  int      `json:"eln"`
	Ecol int      `json:"ecol"`
	Emsg string   `json:"emsg"`
}

func cpsOf(s string) []int {
	out := []int{}
	for _, r := range s {
		out = append(out, int(r))
	}
	return out
}

var posRe = regexp.MustCompile(`t\.ebnf:(\d+):(\d+)`)

// lexStream runs the real lexer over text with reader half-size n (0 = production size).
func lexStream(id, text string, n int) LexStream {
	st := LexStream{ID: id, Cps: cpsOf(text), Toks: []LexTok{}}
	err := safely(func() error {
		var l *ebnflexer.Lexer
		var err error
		if n > 0 {
			l, err = ebnflexer.VerifNewWithBuffer("t.ebnf", strings.NewReader(text), n)
		} else {
			l, err = ebnflexer.New("t.ebnf", strings.NewReader(text))
		}
		if err != nil {
			if err == io.EOF { // empty input
				st.End = "eof"
				return nil
			}
			return err
		}
		for k := 0; k < 100000; k++ {
			tok, err := l.NextToken()
			if err == io.EOF {
				st.End = "eof"
				return nil
			}
			if err != nil {
				return err
			}
			st.Toks = append(st.Toks, LexTok{K: string(tok.Terminal), Lx: cpsOf(tok.Lexeme), Off: tok.Pos.Offset, Ln: tok.Pos.Line, Col: tok.Pos.Column})
		}
		return fmt.Errorf("lexer does not terminate")
	})
	if err != nil {
		st.End = "err"
		st.Emsg = err.Error()
		if m := posRe.FindStringSubmatch(st.Emsg); m != nil {
			fmt.Sscanf(m[1], "%d", &st.Eln)
			fmt.Sscanf(m[2], "%d", &st.Ecol)
		}
	}
	return st
}

func cmdLexerStream(args []string) error {
	fs := flag.NewFlagSet("lexer-stream", flag.ContinueOnError)
	in := fs.String("in", "gen_texts.ndjson", "ndjson of {text: [one-character strings]}")
	out := fs.String("out", "streams.ndjson", "")
	shard := fs.String("shard", "0/1", "i/n")
	nl := fs.Bool("final-newline", false, "append a newline to every text")
	if err := fs.Parse(args); err != nil {
		return err
	}
	var shI, shN int
	if _, err := fmt.Sscanf(*shard, "%d/%d", &shI, &shN); err != nil || shN < 1 {
		return fmt.Errorf("bad -shard")
	}
	w, err := newNDWriter(*out)
	if err != nil {
		return err
	}
	n := 0
	err = readNDJSON(*in, func(line []byte) error {
		n++
		if n%shN != shI {
			return nil
		}
		var c struct {
			Text []string `json:"text"`
		}
		if err := json.Unmarshal(line, &c); err != nil {
			return err
		}
		text := strings.Join(c.Text, "")
		if *nl {
			text += "\n"
		}
		return w.Write(lexStream(fmt.Sprintf("T-%d", n), text, 0))
	})
	if err != nil {
		return err
	}
	return w.Close()
}

func init() {
	commands["lexer-stream"] = cmdLexerStream
}
