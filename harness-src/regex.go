package main

import (
	"unicode"
	"encoding/json"
	"flag"
	"fmt"
	"sort"
	"strings"
	"time"

	auto "github.com/moorara/algo/automata"

	ebnfparser "github.com/gardenbed/emerge/internal/ebnf/parser"
	"github.com/gardenbed/emerge/internal/ebnf/parser/spec"
	"github.com/gardenbed/emerge/internal/regex/parser/ast"
	"github.com/gardenbed/emerge/internal/regex/parser/nfa"
)

// ---- exchange format (DESIGN Appendix A; spec/Regex.tla) ----

type Item struct {
	T  string `json:"t"`
	Lo int    `json:"lo"`
	Hi int    `json:"hi"`
	N  string `json:"n"`
}

type Factor struct {
	K    string     `json:"k"`
	Neg  bool       `json:"neg"`
	S    []Item     `json:"s"`
	A    [][]Factor `json:"a"`
	T    []Factor   `json:"t"`
	Lo   int        `json:"lo"`
	Hi   int        `json:"hi"`
	Syn  string     `json:"syn"`
	Lazy bool       `json:"lazy"`
}

type RegexCase struct {
	Fam    string   `json:"fam"`
	Term   []Factor `json:"term"`
	Top    bool     `json:"top"`
	Predef string   `json:"predef"`
	Anchor string   `json:"anchor"` // "", "^", "$", "^$": anchors written around the printed term
}

type Class struct {
	Rep int      `json:"rep"`
	M   [][2]int `json:"m"`
}

type AutoArt struct {
	Name  string  `json:"name"`
	Err   string  `json:"err"`
	Start int     `json:"start"`
	Acc   []bool  `json:"acc"`
	D     [][]int `json:"d"` // d[state][class] = next state (1-based), 0 = no transition
}

type RegexArt struct {
	ID      string    `json:"id"`
	Fam     string    `json:"fam"`
	Pat     string    `json:"pat"`
	Term    []Factor  `json:"term"`
	Classes []Class   `json:"classes"`
	Autos   []AutoArt `json:"autos"`
}

// normalise makes nil slices empty so that the ndjson records are uniform.
func normTerm(t []Factor) []Factor {
	if t == nil {
		return []Factor{}
	}
	for i := range t {
		f := &t[i]
		if f.S == nil {
			f.S = []Item{}
		}
		if f.A == nil {
			f.A = [][]Factor{}
		}
		for j := range f.A {
			f.A[j] = normTerm(f.A[j])
		}
		f.T = normTerm(f.T)
	}
	return t
}

// ---- printer: term -> concrete pattern text in unambiguous form ----

const escapedChars = `\|.?*+()[]{}$`

type printer struct {
	b       strings.Builder
	afterHx bool // the last thing written was a \xHH escape
}

func isHexDigitUpper(c int) bool { return (c >= '0' && c <= '9') || (c >= 'A' && c <= 'F') }

func (p *printer) raw(s string) { p.b.WriteString(s); p.afterHx = false }

func (p *printer) hex(c int) {
	if c <= 0xFF {
		fmt.Fprintf(&p.b, `\x%02X`, c)
	} else if c <= 0xFFFF {
		fmt.Fprintf(&p.b, `\x%04X`, c)
	} else {
		fmt.Fprintf(&p.b, `\x%06X`, c)
	}
	p.afterHx = true
}

// char prints one literal code point outside (inBr=false) or inside a bracket group.
func (p *printer) char(c int, inBr bool) {
	switch {
	case c < 0x20 || c > 0x7E:
		p.hex(c)
	case p.afterHx && isHexDigitUpper(c):
		p.hex(c)
	case c == '^':
		p.hex(c)
	case inBr && (c == '-' || c == ':'):
		p.hex(c)
	case strings.ContainsRune(escapedChars, rune(c)):
		p.raw(`\` + string(rune(c)))
	default:
		p.raw(string(rune(c)))
	}
}

func clsText(n string) string {
	if strings.HasPrefix(n, "p:") {
		return `\p{` + n[2:] + "}"
	}
	if strings.HasPrefix(n, "P:") {
		return `\P{` + n[2:] + "}"
	}
	switch n {
	case "s", "S", "d", "D", "w", "W":
		return `\` + n
	default:
		return "[:" + n + ":]"
	}
}

func (p *printer) item(it Item, inBr bool) {
	switch it.T {
	case "ch":
		p.char(it.Lo, inBr)
	case "rng":
		p.rangeEnd(it.Lo)
		p.raw("-")
		p.rangeEnd(it.Hi)
	case "cls":
		p.raw(clsText(it.N))
	case "any":
		p.raw(".")
	}
}

func (p *printer) rangeEnd(c int) {
	if (c >= '0' && c <= '9' && !p.afterHx) || (c >= 'a' && c <= 'z') || (c >= 'G' && c <= 'Z') || (!p.afterHx && c >= 'A' && c <= 'F') {
		p.raw(string(rune(c)))
	} else {
		p.hex(c)
	}
}

func (p *printer) set(f Factor) {
	if !f.Neg && len(f.S) == 1 {
		it := f.S[0]
		switch {
		case it.T == "ch", it.T == "any":
			p.item(it, false)
			return
		case it.T == "cls" && (len(it.N) == 1 || strings.HasPrefix(it.N, "p:") || strings.HasPrefix(it.N, "P:")):
			p.item(it, false)
			return
		}
	}
	p.raw("[")
	if f.Neg {
		p.raw("^")
	}
	for _, it := range f.S {
		p.item(it, true)
	}
	p.raw("]")
}

func (p *printer) term(t []Factor) {
	for _, f := range t {
		p.factor(f)
	}
}

func (p *printer) alts(a [][]Factor) {
	for i, t := range a {
		if i > 0 {
			p.raw("|")
		}
		p.term(t)
	}
}

func (p *printer) factor(f Factor) {
	switch f.K {
	case "set":
		p.set(f)
	case "alt":
		p.raw("(")
		p.alts(f.A)
		p.raw(")")
	case "rep":
		if len(f.T) == 1 && (f.T[0].K == "set" || f.T[0].K == "alt") {
			p.factor(f.T[0])
		} else {
			p.raw("(")
			p.term(f.T)
			p.raw(")")
		}
		switch f.Syn {
		case "q":
			p.raw("?")
		case "star":
			p.raw("*")
		case "plus":
			p.raw("+")
		case "n":
			p.raw(fmt.Sprintf("{%d}", f.Lo))
		case "n_":
			p.raw(fmt.Sprintf("{%d,}", f.Lo))
		case "nm":
			p.raw(fmt.Sprintf("{%d,%d}", f.Lo, f.Hi))
		}
		if f.Lazy {
			p.raw("?")
		}
	}
}

func printPattern(c RegexCase) string {
	var p printer
	if c.Top && len(c.Term) == 1 && c.Term[0].K == "alt" {
		p.alts(c.Term[0].A)
	} else {
		p.term(c.Term)
	}
	out := p.b.String()
	if strings.HasPrefix(c.Anchor, "^") {
		out = "^" + out
	}
	if strings.HasSuffix(c.Anchor, "$") {
		out += "$"
	}
	return out
}

// ---- class membership, used ONLY to compute the alphabet partition ----
// (the reference meaning lives in spec/CharClasses.tla, which re-checks that
// every class of the partition is uniform for every set of the term)

func inRange(c, lo, hi int) bool { return lo <= c && c <= hi }

// uniTable: Go's tables for the category names; used only to split the alphabet into classes (the verdict comes from the
// reference in CharClasses.tla)
func uniTable(name string) *unicode.RangeTable {
	long := map[string]string{"Letter": "L", "Mark": "M", "Number": "N", "Punctuation": "P", "Separator": "Z", "Symbol": "S"}
	if s, ok := long[name]; ok {
		name = s
	}
	if t, ok := unicode.Categories[name]; ok {
		return t
	}
	if t, ok := unicode.Scripts[name]; ok {
		return t
	}
	return nil
}

func classHas(n string, c int) bool {
	if c < 1 || c > 127 {
		return false
	}
	if strings.HasPrefix(n, "p:") || strings.HasPrefix(n, "P:") {
		t := uniTable(n[2:])
		in := t != nil && unicode.Is(t, rune(c))
		return in == (n[0] == 'p')
	}
	digit := inRange(c, '0', '9')
	upper := inRange(c, 'A', 'Z')
	lower := inRange(c, 'a', 'z')
	word := digit || upper || lower || c == '_'
	space := c == ' ' || c == '\t' || c == '\n' || c == '\r' || c == '\f'
	switch n {
	case "s":
		return space
	case "S":
		return !space
	case "d", "digit":
		return digit
	case "D":
		return !digit
	case "w", "word":
		return word
	case "W":
		return !word
	case "blank":
		return c == ' ' || c == '\t'
	case "space":
		return space || c == '\v'
	case "xdigit":
		return digit || inRange(c, 'A', 'F') || inRange(c, 'a', 'f')
	case "upper":
		return upper
	case "lower":
		return lower
	case "alpha":
		return upper || lower
	case "alnum":
		return digit || upper || lower
	case "ascii":
		return true
	}
	return false
}

func itemHas(it Item, c int) bool {
	switch it.T {
	case "ch":
		return c == it.Lo
	case "rng":
		return inRange(c, it.Lo, it.Hi)
	case "cls":
		return classHas(it.N, c)
	case "any":
		return c >= 1 && c <= 127
	}
	return false
}

func setHas(f Factor, c int) bool {
	hit := false
	for _, it := range f.S {
		if itemHas(it, c) {
			hit = true
			break
		}
	}
	if f.Neg {
		return c >= 1 && c <= 127 && !hit
	}
	return hit
}

func collectSets(t []Factor, out *[]Factor) {
	for _, f := range t {
		switch f.K {
		case "set":
			*out = append(*out, f)
		case "alt":
			for _, a := range f.A {
				collectSets(a, out)
			}
		case "rep":
			collectSets(f.T, out)
		}
	}
}

// ---- automaton export ----

type denseDFA struct {
	states []auto.State
	index  map[auto.State]int
	d      *auto.DFA
}

func newDense(d *auto.DFA) *denseDFA {
	dd := &denseDFA{d: d, index: map[auto.State]int{}}
	dd.states = d.States()
	for i, s := range dd.states {
		dd.index[s] = i + 1
	}
	return dd
}

func safely(f func() error) (err error) {
	defer func() {
		if r := recover(); r != nil {
			err = fmt.Errorf("panic: %v", r)
		}
	}()
	return f()
}

// buildRoutes runs the real code for one pattern on every requested route.
func buildRoutes(pat string, routes []string) ([]*auto.DFA, []string) {
	ds := make([]*auto.DFA, len(routes))
	errs := make([]string, len(routes))
	var n0, mn *auto.DFA
	stage := func() error {
		if n0 != nil {
			return nil
		}
		n, err := nfa.Parse(pat)
		if err != nil {
			return err
		}
		n0 = n.ToDFA()
		mn = n0.Minimize()
		return nil
	}
	for i, r := range routes {
		i, r := i, r
		err := safely(func() error {
			switch r {
			case "pipe":
				d, err := spec.VerifRegexToDFA(pat)
				ds[i] = d
				return err
			case "nfa0":
				if err := stage(); err != nil {
					return err
				}
				ds[i] = n0
			case "min":
				if err := stage(); err != nil {
					return err
				}
				ds[i] = mn
			case "elim":
				if err := stage(); err != nil {
					return err
				}
				ds[i] = mn.EliminateDeadStates()
			case "ast":
				a, err := ast.Parse(pat)
				if err != nil {
					return err
				}
				ds[i] = a.ToDFA()
			default:
				return fmt.Errorf("unknown route %s", r)
			}
			return nil
		})
		if err != nil {
			ds[i] = nil
			errs[i] = err.Error()
			if errs[i] == "" {
				errs[i] = "error"
			}
		}
	}
	return ds, errs
}

// partition computes the coarsest partition of the string domain that is
// uniform for every set factor of the term and every transition column.
func partition(sets []Factor, dense []*denseDFA, extras []int) []Class {
	domain := make([]int, 0, 127+len(extras))
	for c := 1; c <= 127; c++ {
		domain = append(domain, c)
	}
	seen := map[int]bool{}
	for _, c := range extras {
		if c > 127 && !seen[c] {
			seen[c] = true
			domain = append(domain, c)
		}
	}
	sort.Ints(domain)
	sig := map[string][]int{}
	var order []string
	for _, c := range domain {
		var b strings.Builder
		for _, f := range sets {
			if setHas(f, c) {
				b.WriteByte('1')
			} else {
				b.WriteByte('0')
			}
		}
		for _, dd := range dense {
			if dd == nil {
				continue
			}
			for _, s := range dd.states {
				fmt.Fprintf(&b, ",%d", dd.index[dd.d.Next(s, auto.Symbol(c))])
			}
		}
		k := b.String()
		if _, ok := sig[k]; !ok {
			order = append(order, k)
		}
		sig[k] = append(sig[k], c)
	}
	classes := make([]Class, 0, len(order))
	for _, k := range order {
		m := sig[k]
		cl := Class{Rep: m[0]}
		lo, hi := m[0], m[0]
		for _, c := range m[1:] {
			if c == hi+1 {
				hi = c
				continue
			}
			cl.M = append(cl.M, [2]int{lo, hi})
			lo, hi = c, c
		}
		cl.M = append(cl.M, [2]int{lo, hi})
		classes = append(classes, cl)
	}
	return classes
}

func exportAuto(name string, dd *denseDFA, errText string, classes []Class) AutoArt {
	a := AutoArt{Name: name, Err: errText, Acc: []bool{}, D: [][]int{}}
	if dd == nil {
		return a
	}
	a.Start = dd.index[dd.d.Start]
	for _, s := range dd.states {
		a.Acc = append(a.Acc, dd.d.Final.Contains(s))
		row := make([]int, len(classes))
		for j, cl := range classes {
			row[j] = dd.index[dd.d.Next(s, auto.Symbol(cl.Rep))]
		}
		a.D = append(a.D, row)
	}
	return a
}

func extrasOf(sets []Factor, ds []*auto.DFA) []int {
	var ex []int
	for _, f := range sets {
		for _, it := range f.S {
			if it.Lo > 127 {
				ex = append(ex, it.Lo)
			}
			if it.Hi > 127 {
				ex = append(ex, it.Hi)
				if it.T == "rng" && it.Hi-it.Lo < 64 {
					for c := it.Lo; c <= it.Hi; c++ {
						ex = append(ex, c)
					}
				}
			}
		}
	}
	for _, d := range ds {
		if d == nil {
			continue
		}
		for _, s := range d.Symbols() {
			if int(s) > 127 && int(s) != 0xEEEE {
				ex = append(ex, int(s))
			}
		}
	}
	return ex
}

func patternOf(c RegexCase) string {
	if c.Predef != "" {
		return ebnfparser.Predefs[c.Predef]
	}
	return printPattern(c)
}

func cmdRegexExport(args []string) error {
	fs := flag.NewFlagSet("regex-export", flag.ContinueOnError)
	in := fs.String("in", "gen_cases.ndjson", "cases from the TLA+ generator")
	out := fs.String("out", "cases.ndjson", "artifacts for the TLA+ product spec")
	routesF := fs.String("routes", "pipe", "comma separated routes: pipe,nfa0,min,elim,ast")
	fams := fs.String("fams", "", "comma separated families to keep (empty: all)")
	shard := fs.String("shard", "0/1", "process cases with index%n == i")
	budget := fs.Int("budget", 5, "seconds allowed per pattern before it is skipped")
	skipped := 0
	if err := fs.Parse(args); err != nil {
		return err
	}
	var shI, shN int
	if _, err := fmt.Sscanf(*shard, "%d/%d", &shI, &shN); err != nil || shN < 1 {
		return fmt.Errorf("bad -shard %q", *shard)
	}
	routes := strings.Split(*routesF, ",")
	keep := map[string]bool{}
	for _, f := range strings.Split(*fams, ",") {
		if f != "" {
			keep[f] = true
		}
	}
	w, err := newNDWriter(*out)
	if err != nil {
		return err
	}
	n := 0
	seenPat := map[string]bool{}
	err = readNDJSON(*in, func(line []byte) error {
		var c RegexCase
		if err := json.Unmarshal(line, &c); err != nil {
			return err
		}
		if len(keep) > 0 && !keep[c.Fam] {
			return nil
		}
		c.Term = normTerm(c.Term)
		pat := patternOf(c)
		if seenPat[pat] {
			return nil
		}
		seenPat[pat] = true
		n++
		if n%shN != shI {
			return nil
		}
		type built struct {
			ds   []*auto.DFA
			errs []string
		}
		ch := make(chan built, 1)
		go func() {
			ds, errs := buildRoutes(pat, routes)
			ch <- built{ds, errs}
		}()
		var ds []*auto.DFA
		var errs []string
		select {
		case b := <-ch:
			ds, errs = b.ds, b.errs
		case <-time.After(time.Duration(*budget) * time.Second):
			// too expensive for this run: the case is not explored (and is counted), never a verdict
			skipped++
			return nil
		}
		var sets []Factor
		collectSets(c.Term, &sets)
		dense := make([]*denseDFA, len(ds))
		for i, d := range ds {
			if d != nil {
				dense[i] = newDense(d)
			}
		}
		classes := partition(sets, dense, extrasOf(sets, ds))
		art := RegexArt{ID: fmt.Sprintf("%s-%d", c.Fam, n), Fam: c.Fam, Pat: pat, Term: c.Term, Classes: classes}
		for i, r := range routes {
			art.Autos = append(art.Autos, exportAuto(r, dense[i], errs[i], classes))
		}
		return w.Write(art)
	})
	if err != nil {
		return err
	}
	fmt.Printf("EXPORTED %d\nSKIPPED %d\n", n, skipped)
	return w.Close()
}

// regex-replay: decide, on the real code, whether route accepts the word.
type RegexReplay struct {
	Pat   string `json:"pat"`
	Word  []int  `json:"word"`
	Route string `json:"route"`
}

func cmdRegexReplay(args []string) error {
	fs := flag.NewFlagSet("regex-replay", flag.ContinueOnError)
	in := fs.String("in", "", "ndjson of {pat, word, route}")
	out := fs.String("out", "", "ndjson of {pat, word, route, err, accepts}")
	if err := fs.Parse(args); err != nil {
		return err
	}
	w, err := newNDWriter(*out)
	if err != nil {
		return err
	}
	err = readNDJSON(*in, func(line []byte) error {
		var r RegexReplay
		if err := json.Unmarshal(line, &r); err != nil {
			return err
		}
		ds, errs := buildRoutes(r.Pat, []string{r.Route})
		res := map[string]any{"pat": r.Pat, "word": r.Word, "route": r.Route, "err": errs[0], "accepts": false}
		if ds[0] != nil {
			s := make(auto.String, len(r.Word))
			for i, c := range r.Word {
				s[i] = auto.Symbol(c)
			}
			res["accepts"] = ds[0].Accept(s)
		}
		return w.Write(res)
	})
	if err != nil {
		return err
	}
	return w.Close()
}

// regex-print: concrete pattern text of every generated term (canonical, unambiguous prints for C09).
func cmdRegexPrint(args []string) error {
	fs := flag.NewFlagSet("regex-print", flag.ContinueOnError)
	in := fs.String("in", "gen_cases.ndjson", "cases from the TLA+ generator")
	out := fs.String("out", "pats.ndjson", "ndjson of {text, kind, fam}")
	if err := fs.Parse(args); err != nil {
		return err
	}
	w, err := newNDWriter(*out)
	if err != nil {
		return err
	}
	seen := map[string]bool{}
	err = readNDJSON(*in, func(line []byte) error {
		var c RegexCase
		if err := json.Unmarshal(line, &c); err != nil {
			return err
		}
		c.Term = normTerm(c.Term)
		pat := patternOf(c)
		if seen[pat] {
			return nil
		}
		seen[pat] = true
		return w.Write(map[string]any{"text": pat, "kind": "canon", "fam": c.Fam, "expect": ""})
	})
	if err != nil {
		return err
	}
	return w.Close()
}

func init() {
	commands["regex-print"] = cmdRegexPrint
	commands["regex-export"] = cmdRegexExport
	commands["regex-replay"] = cmdRegexReplay
}
