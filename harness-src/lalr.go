package main

import (
	"encoding/json"
	"flag"
	"fmt"
	"sort"
	"strings"

	"github.com/moorara/algo/grammar"
	"github.com/moorara/algo/parser/lr"

	"github.com/gardenbed/emerge/internal/ebnf/parser/spec"
)

type PProd struct {
	H string   `json:"h"`
	B []string `json:"b"`
}

type PLevel struct {
	Assoc string   `json:"assoc"`
	Terms []string `json:"terms"`
	Prods []PProd  `json:"prods"`
}

type LalrArt struct {
	ID       string              `json:"id"`
	Fam      string              `json:"fam"`
	Text     string              `json:"text"`
	Perr     string              `json:"perr"`
	Prods    []PProd             `json:"prods"`
	Start    string              `json:"start"`
	Levels   []PLevel            `json:"levels"`
	Terms    []string            `json:"terms"`
	Built    bool                `json:"built"`
	Terr     string              `json:"terr"`
	Conflict bool                `json:"conflict"`
	NStates  int                 `json:"nstates"`
	Act      []map[string][]any  `json:"act"`
	Goto     []map[string]int    `json:"goto"`
}

func pprod(p *grammar.Production) PProd {
	b := []string{}
	for _, s := range p.Body {
		b = append(b, symName(s))
	}
	return PProd{H: symName(p.Head), B: b}
}

func lalrArt(id, fam, text string) LalrArt {
	a := LalrArt{ID: id, Fam: fam, Text: text, Prods: []PProd{}, Levels: []PLevel{}, Terms: []string{}, Act: []map[string][]any{}, Goto: []map[string]int{}}
	err := safely(func() error {
		s, err := spec.Parse("t.ebnf", strings.NewReader(text))
		if err != nil {
			a.Perr = err.Error()
			return nil
		}
		prods := s.Productions()
		index := map[string]int{}
		for i, p := range prods {
			pp := pprod(p)
			a.Prods = append(a.Prods, pp)
			k, _ := json.Marshal(pp)
			index[string(k)] = i + 1
		}
		a.Start = symName(s.Grammar.Start)
		var terms []grammar.Terminal
		for t := range s.Grammar.Terminals.All() {
			terms = append(terms, t)
			a.Terms = append(a.Terms, symName(t))
		}
		sort.Strings(a.Terms)
		for _, lv := range s.Precedences {
			pl := PLevel{Terms: []string{}, Prods: []PProd{}}
			switch lv.Associativity {
			case lr.LEFT:
				pl.Assoc = "left"
			case lr.RIGHT:
				pl.Assoc = "right"
			default:
				pl.Assoc = "none"
			}
			for h := range lv.Handles.All() {
				if h.IsTerminal() {
					pl.Terms = append(pl.Terms, symName(*h.Terminal))
				} else if h.IsProduction() {
					pl.Prods = append(pl.Prods, pprod(h.Production))
				}
			}
			sort.Strings(pl.Terms)
			a.Levels = append(a.Levels, pl)
		}
		T, err := s.LALRParsingTable()
		if err != nil {
			a.Terr = err.Error()
			a.Conflict = strings.Contains(a.Terr, "onflict") || strings.Contains(a.Terr, "Ambiguous")
			return nil
		}
		if T == nil {
			a.Terr = "nil table without error"
			return nil
		}
		a.Built = true
		maxS := 0
		for _, st := range T.States {
			if int(st) > maxS {
				maxS = int(st)
			}
		}
		a.NStates = maxS + 1
		var nts []grammar.NonTerminal
		for n := range s.Grammar.NonTerminals.All() {
			nts = append(nts, n)
		}
		allT := append(append([]grammar.Terminal{}, terms...), grammar.Endmarker)
		for st := 0; st <= maxS; st++ {
			row := map[string][]any{}
			for _, t := range allT {
				act, err := T.ACTION(lr.State(st), t)
				if err != nil {
					if _, isConf := err.(*lr.ConflictError); isConf {
						row[symName(t)] = []any{"c", 0}
					}
					continue
				}
				switch act.Type {
				case lr.SHIFT:
					row[symName(t)] = []any{"s", int(act.State) + 1}
				case lr.REDUCE:
					k, _ := json.Marshal(pprod(act.Production))
					row[symName(t)] = []any{"r", index[string(k)]}
				case lr.ACCEPT:
					row[symName(t)] = []any{"a", 0}
				}
			}
			a.Act = append(a.Act, row)
			grow := map[string]int{}
			for _, n := range nts {
				if nx, err := T.GOTO(lr.State(st), n); err == nil {
					grow[symName(n)] = int(nx) + 1
				}
			}
			a.Goto = append(a.Goto, grow)
		}
		return nil
	})
	if err != nil {
		a.Perr = "panic: " + err.Error()
	}
	return a
}

func cmdLalrExport(args []string) error {
	fs := flag.NewFlagSet("lalr-export", flag.ContinueOnError)
	in := fs.String("in", "", "ndjson of {id, fam, text}")
	out := fs.String("out", "lalr.ndjson", "")
	shard := fs.String("shard", "0/1", "i/n")
	if err := fs.Parse(args); err != nil {
		return err
	}
	var shI, shN int
	if _, err := fmt.Sscanf(*shard, "%d/%d", &shI, &shN); err != nil || shN < 1 {
		return fmt.Errorf("bad -shard")
	}
	w, err := newNDWriter(*out)
	if err != nil {
		return err
	}
	n := 0
	err = readNDJSON(*in, func(line []byte) error {
		n++
		if n%shN != shI {
			return nil
		}
		var c struct {
			ID   string `json:"id"`
			Fam  string `json:"fam"`
			Text string `json:"text"`
		}
		if err := json.Unmarshal(line, &c); err != nil {
			return err
		}
		return w.Write(lalrArt(c.ID, c.Fam, c.Text))
	})
	if err != nil {
		return err
	}
	return w.Close()
}

func init() {
	commands["lalr-export"] = cmdLalrExport
}
