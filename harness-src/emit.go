package main

import (
	"encoding/json"
	"flag"
	"fmt"
	"os"
	"path/filepath"
	"sort"
	"strings"

	"github.com/gardenbed/charm/ui"

	"github.com/gardenbed/emerge/internal/ebnf/parser/spec"
	"github.com/gardenbed/emerge/internal/generate/golang"
)

// EmitArt: the token automaton emerge computed for a specification, and where the package was emitted.
type EmitArt struct {
	ID      string     `json:"id"`
	Text    string     `json:"text"`
	Err     string     `json:"err"`
	Dir     string     `json:"dir"`
	Package string     `json:"package"`
	NStates int        `json:"nstates"` // states are 0..nstates-1 (emerge's own numbering), start = 0
	Start   int        `json:"start"`
	Syms    []int      `json:"syms"`  // every symbol of the automaton
	Trans   [][]int    `json:"trans"` // [state, symbol, next]
	Owner   [][]string `json:"owner"` // [state, terminal] for every accepting state
	Terms   []string   `json:"terms"` // every terminal of Definitions
	Files   []string   `json:"files"`
}

func cmdEmitExport(args []string) error {
	fs := flag.NewFlagSet("emit-export", flag.ContinueOnError)
	in := fs.String("in", "", "ndjson of {id, text}")
	out := fs.String("out", "emits.ndjson", "")
	root := fs.String("root", "", "directory under which every package is emitted (root/<id>/<package>)")
	if err := fs.Parse(args); err != nil {
		return err
	}
	w, err := newNDWriter(*out)
	if err != nil {
		return err
	}
	err = readNDJSON(*in, func(line []byte) error {
		var c TextCase
		if err := json.Unmarshal(line, &c); err != nil {
			return err
		}
		a := EmitArt{ID: c.ID, Text: c.Text, Syms: []int{}, Trans: [][]int{}, Owner: [][]string{}, Terms: []string{}, Files: []string{}}
		e := safely(func() error {
			s, err := spec.Parse("t.ebnf", strings.NewReader(c.Text))
			if err != nil {
				return err
			}
			d, tm, err := s.DFA()
			if err != nil {
				return err
			}
			a.Package = s.Name
			a.Start = int(d.Start)
			maxS := 0
			for _, st := range d.States() {
				if int(st) > maxS {
					maxS = int(st)
				}
			}
			a.NStates = maxS + 1
			for _, sy := range d.Symbols() {
				a.Syms = append(a.Syms, int(sy))
			}
			for tr := range d.Transitions() {
				a.Trans = append(a.Trans, []int{int(tr.State), int(tr.Symbol), int(tr.Next)})
			}
			sort.Slice(a.Trans, func(i, j int) bool {
				if a.Trans[i][0] != a.Trans[j][0] {
					return a.Trans[i][0] < a.Trans[j][0]
				}
				return a.Trans[i][1] < a.Trans[j][1]
			})
			for t, ss := range tm {
				for _, st := range ss {
					a.Owner = append(a.Owner, []string{fmt.Sprint(int(st)), string(t)})
				}
			}
			sort.Slice(a.Owner, func(i, j int) bool { return a.Owner[i][0]+a.Owner[i][1] < a.Owner[j][0]+a.Owner[j][1] })
			for _, df := range s.Definitions {
				a.Terms = append(a.Terms, string(df.Terminal))
			}
			dir := filepath.Join(*root, c.ID)
			if err := os.MkdirAll(dir, 0o755); err != nil {
				return err
			}
			a.Dir = filepath.Join(dir, s.Name)
			if err := golang.Generate(ui.NewNop(), &golang.Params{Path: dir, Spec: s}); err != nil {
				return fmt.Errorf("generate: %w", err)
			}
			ents, _ := os.ReadDir(a.Dir)
			for _, e := range ents {
				a.Files = append(a.Files, e.Name())
			}
			return nil
		})
		if e != nil {
			a.Err = e.Error()
		}
		return w.Write(a)
	})
	if err != nil {
		return err
	}
	return w.Close()
}

func init() {
	commands["emit-export"] = cmdEmitExport
}
