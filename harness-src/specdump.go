package main

import (
	"encoding/json"
	"flag"
	"fmt"
	"sort"
	"strings"

	"github.com/moorara/algo/grammar"
	"github.com/moorara/algo/parser/lr"

	"github.com/gardenbed/emerge/internal/ebnf/parser/spec"
)

type Sym struct {
	T int    `json:"t"` // 1 terminal, 0 non-terminal
	N string `json:"n"`
}

type Prod struct {
	H string `json:"h"`
	B []Sym  `json:"b"`
}

type DefDump struct {
	T   string `json:"t"`
	V   string `json:"v"`
	Re  bool   `json:"re"`
	Pos []int  `json:"pos"` // offset, line, column; empty if the definition has no position
}

type PrecDump struct {
	Assoc string   `json:"assoc"`
	Terms []string `json:"terms"`
	Prods []Prod   `json:"prods"`
}

type SpecDump struct {
	ID    string     `json:"id"`
	OK    bool       `json:"ok"`
	Err   string     `json:"err"`
	Name  string     `json:"name"`
	Start string     `json:"start"`
	Terms []string   `json:"terms"`
	NTs   []string   `json:"nts"`
	Prods []Prod     `json:"prods"`
	Defs  []DefDump  `json:"defs"`
	Precs []PrecDump `json:"precs"`
}

func symsOf(b grammar.String[grammar.Symbol]) []Sym {
	out := []Sym{}
	for _, s := range b {
		if s.IsTerminal() {
			out = append(out, Sym{1, string(s.(grammar.Terminal))})
		} else {
			out = append(out, Sym{0, string(s.(grammar.NonTerminal))})
		}
	}
	return out
}

func prodKey(p Prod) string {
	b, _ := json.Marshal(p)
	return string(b)
}

func sortProds(ps []Prod) {
	sort.Slice(ps, func(i, j int) bool { return prodKey(ps[i]) < prodKey(ps[j]) })
}

func dumpOf(id string, s *spec.Spec) SpecDump {
	d := SpecDump{ID: id, OK: true, Name: s.Name, Start: string(s.Grammar.Start),
		Terms: []string{}, NTs: []string{}, Prods: []Prod{}, Defs: []DefDump{}, Precs: []PrecDump{}}
	for t := range s.Grammar.Terminals.All() {
		d.Terms = append(d.Terms, string(t))
	}
	sort.Strings(d.Terms)
	for n := range s.Grammar.NonTerminals.All() {
		d.NTs = append(d.NTs, string(n))
	}
	sort.Strings(d.NTs)
	for p := range s.Grammar.Productions.All() {
		d.Prods = append(d.Prods, Prod{string(p.Head), symsOf(p.Body)})
	}
	sortProds(d.Prods)
	for _, df := range s.Definitions {
		dd := DefDump{T: string(df.Terminal), V: df.Value, Re: df.IsRegex, Pos: []int{}}
		if df.Pos != nil {
			dd.Pos = []int{df.Pos.Offset, df.Pos.Line, df.Pos.Column}
		}
		d.Defs = append(d.Defs, dd)
	}
	sort.Slice(d.Defs, func(i, j int) bool { return d.Defs[i].T < d.Defs[j].T })
	for _, lv := range s.Precedences {
		pd := PrecDump{Terms: []string{}, Prods: []Prod{}}
		switch lv.Associativity {
		case lr.LEFT:
			pd.Assoc = "left"
		case lr.RIGHT:
			pd.Assoc = "right"
		default:
			pd.Assoc = "none"
		}
		for h := range lv.Handles.All() {
			if h.IsTerminal() {
				pd.Terms = append(pd.Terms, string(*h.Terminal))
			} else if h.IsProduction() {
				pd.Prods = append(pd.Prods, Prod{string(h.Production.Head), symsOf(h.Production.Body)})
			}
		}
		sort.Strings(pd.Terms)
		sortProds(pd.Prods)
		d.Precs = append(d.Precs, pd)
	}
	return d
}

func dumpSpec(id, filename, text string) SpecDump {
	var d SpecDump
	err := safely(func() error {
		s, err := spec.Parse(filename, strings.NewReader(text))
		if err != nil {
			return err
		}
		if s == nil {
			return fmt.Errorf("nil result without error")
		}
		d = dumpOf(id, s)
		return nil
	})
	if err != nil {
		d = SpecDump{ID: id, Err: err.Error(), Terms: []string{}, NTs: []string{}, Prods: []Prod{}, Defs: []DefDump{}, Precs: []PrecDump{}}
		if d.Err == "" {
			d.Err = "error"
		}
	}
	return d
}

type TextCase struct {
	ID   string `json:"id"`
	Text string `json:"text"`
}

func cmdSpecDump(args []string) error {
	fs := flag.NewFlagSet("spec-dump", flag.ContinueOnError)
	in := fs.String("in", "", "ndjson of {id, text}")
	out := fs.String("out", "", "ndjson of SpecDump")
	shard := fs.String("shard", "0/1", "i/n")
	if err := fs.Parse(args); err != nil {
		return err
	}
	var shI, shN int
	if _, err := fmt.Sscanf(*shard, "%d/%d", &shI, &shN); err != nil || shN < 1 {
		return fmt.Errorf("bad -shard")
	}
	w, err := newNDWriter(*out)
	if err != nil {
		return err
	}
	n := 0
	err = readNDJSON(*in, func(line []byte) error {
		n++
		if n%shN != shI {
			return nil
		}
		var c TextCase
		if err := json.Unmarshal(line, &c); err != nil {
			return err
		}
		return w.Write(dumpSpec(c.ID, "t.ebnf", c.Text))
	})
	if err != nil {
		return err
	}
	return w.Close()
}

func init() {
	commands["spec-dump"] = cmdSpecDump
}

func grammarTerminal(s string) grammar.Terminal { return grammar.Terminal(s) }
