package main

import (
	"encoding/json"
	"errors"
	"flag"
	"fmt"
	"strings"

	"github.com/moorara/algo/lexer"
	"github.com/moorara/algo/parser/lr"

	ebnfparser "github.com/gardenbed/emerge/internal/ebnf/parser"
)

type Arg struct {
	Val string `json:"val"`
	Off int    `json:"off"` // -1: no position
	Ln  int    `json:"ln"`
	Col int    `json:"col"`
}

type PEvent struct {
	E    string `json:"e"` // tok | prod | eval
	I    int    `json:"i"`
	K    string `json:"k"`
	Lx   string `json:"lx"`
	Off  int    `json:"off"`
	Ln   int    `json:"ln"`
	Col  int    `json:"col"`
	Args []Arg  `json:"args"`
	Res  string `json:"res"`
}

type PTrace struct {
	ID     string   `json:"id"`
	Mode   string   `json:"mode"` // parse | eval
	FailAt int      `json:"failat"`
	Text   string   `json:"text"`
	Toks   []PTok   `json:"toks"`
	Events []PEvent `json:"events"`
	OK     bool     `json:"ok"`
	Wraps  bool     `json:"wraps"`
	Err    string   `json:"err"`
	Decls  []EDecl  `json:"decls"`
	HasRes bool     `json:"hasres"`
}

var errInjected = errors.New("injected failure")

func runParseTrace(id, text string, mode string, failAt int) PTrace {
	tr := PTrace{ID: id, Mode: mode, FailAt: failAt, Text: text, Events: []PEvent{}}
	calls := 0
	fail := func() error {
		calls++
		if failAt >= 0 && calls-1 == failAt {
			return fmt.Errorf("callback %d: %w", failAt, errInjected)
		}
		return nil
	}
	err := safely(func() error {
		p, err := ebnfparser.New("t.ebnf", strings.NewReader(text))
		if err != nil {
			return err
		}
		if mode == "parse" {
			return p.Parse(
				func(t *lexer.Token) error {
					if err := fail(); err != nil {
						return err
					}
					tr.Events = append(tr.Events, PEvent{E: "tok", K: string(t.Terminal), Lx: t.Lexeme, Off: t.Pos.Offset, Ln: t.Pos.Line, Col: t.Pos.Column, Args: []Arg{}})
					return nil
				},
				func(i int) error {
					if err := fail(); err != nil {
						return err
					}
					tr.Events = append(tr.Events, PEvent{E: "prod", I: i, Args: []Arg{}})
					return nil
				})
		}
		n := 0
		res, err := p.ParseAndEvaluate(func(i int, rhs []*lr.Value) (any, error) {
			if err := fail(); err != nil {
				return nil, err
			}
			ev := PEvent{E: "eval", I: i, Args: []Arg{}}
			for _, v := range rhs {
				a := Arg{Off: -1}
				if v == nil {
					a.Val = "<nil value>"
				} else {
					a.Val = fmt.Sprintf("%v", v.Val)
					if v.Pos != nil {
						a.Off, a.Ln, a.Col = v.Pos.Offset, v.Pos.Line, v.Pos.Column
					}
				}
				ev.Args = append(ev.Args, a)
			}
			n++
			ev.Res = fmt.Sprintf("#%d", n)
			tr.Events = append(tr.Events, ev)
			return ev.Res, nil
		})
		if err == nil {
			tr.HasRes = res != nil && fmt.Sprintf("%v", res.Val) == fmt.Sprintf("#%d", n)
		}
		return err
	})
	tr.OK = err == nil
	if err != nil {
		tr.Err = err.Error()
		tr.Wraps = errors.Is(err, errInjected)
	}
	return tr
}

func cmdParseTrace(args []string) error {
	fs := flag.NewFlagSet("parse-trace", flag.ContinueOnError)
	in := fs.String("in", "gen_specs.ndjson", "")
	out := fs.String("out", "ptraces.ndjson", "")
	shard := fs.String("shard", "0/1", "i/n")
	inject := fs.Int("inject", 0, "inject a callback failure at every step for the first N specs of the shard (-1: all)")
	if err := fs.Parse(args); err != nil {
		return err
	}
	var shI, shN int
	if _, err := fmt.Sscanf(*shard, "%d/%d", &shI, &shN); err != nil || shN < 1 {
		return fmt.Errorf("bad -shard")
	}
	w, err := newNDWriter(*out)
	if err != nil {
		return err
	}
	n, mine := 0, 0
	err = readNDJSON(*in, func(line []byte) error {
		n++
		if n%shN != shI {
			return nil
		}
		mine++
		var s ESpec
		if err := json.Unmarshal(line, &s); err != nil {
			return err
		}
		normSpec(&s)
		text, toks := printSpec(s)
		id := fmt.Sprintf("%s-%d", s.Fam, n)
		for _, mode := range []string{"parse", "eval"} {
			base := runParseTrace(id, text, mode, -1)
			base.Toks, base.Decls = toks, s.Decls
			if err := w.Write(base); err != nil {
				return err
			}
			if *inject < 0 || mine <= *inject {
				for k := 0; k < len(base.Events); k++ {
					tr := runParseTrace(fmt.Sprintf("%s/%s@%d", id, mode, k), text, mode, k)
					tr.Toks, tr.Decls = toks, s.Decls
					if err := w.Write(tr); err != nil {
						return err
					}
				}
			}
		}
		return nil
	})
	if err != nil {
		return err
	}
	return w.Close()
}

func init() {
	commands["parse-trace"] = cmdParseTrace
}
