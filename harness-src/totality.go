package main

import (
	"encoding/json"
	"flag"
	"fmt"
	"os"
	"path/filepath"
	"strings"
	"time"

	"github.com/gardenbed/charm/ui"

	ebnfparser "github.com/gardenbed/emerge/internal/ebnf/parser"
	ebnfast "github.com/gardenbed/emerge/internal/ebnf/parser/ast"
	"github.com/gardenbed/emerge/internal/ebnf/parser/spec"
	"github.com/gardenbed/emerge/internal/generate/golang"
	regexast "github.com/gardenbed/emerge/internal/regex/parser/ast"
	"github.com/gardenbed/emerge/internal/regex/parser/nfa"
)

// outcome of one entry point on one input: ok | err | panic | timeout | nilnil
func guarded(budget time.Duration, f func() (isNil bool, err error)) (string, string) {
	type res struct {
		kind, msg string
	}
	ch := make(chan res, 1)
	go func() {
		var r res
		e := safely(func() error {
			isNil, err := f()
			switch {
			case err != nil:
				r = res{"err", err.Error()}
				if r.msg == "" {
					r = res{"emptyerr", ""}
				}
			case isNil:
				r = res{"nilnil", ""}
			default:
				r = res{"ok", ""}
			}
			return nil
		})
		if e != nil {
			r = res{"panic", e.Error()}
		}
		ch <- r
	}()
	select {
	case r := <-ch:
		return r.kind, r.msg
	case <-time.After(budget):
		return "timeout", ""
	}
}

var byteSet = []byte{0x00, '\n', ' ', '"', '/', '\\', '*', '{', '}', '(', ')', '[', ']', '<', '>', '|', '=', ';', '@', '$', 'a', 'A', '0', '_', '#', 0x80, 0xC3, 0xA9, 0xFF, 0xE2}

type totals struct {
	counts map[string]int
	bad    []map[string]any
	evals  int
	inputs int
	nontrivial int
}

func (t *totals) add(ep, kind, msg, input string) {
	t.evals++
	t.counts[ep+" "+kind]++
	if kind == "panic" || kind == "timeout" || kind == "nilnil" || kind == "emptyerr" {
		if len(t.bad) < 200 {
			t.bad = append(t.bad, map[string]any{"ep": ep, "kind": kind, "msg": msg, "input": input})
		}
	}
}

func specEntryPoints(t *totals, text string, gendir string) {
	t.inputs++
	budget := totalityBudget
	k, m := guarded(budget, func() (bool, error) {
		p, err := ebnfparser.New("t.ebnf", strings.NewReader(text))
		if err != nil {
			return false, err
		}
		return false, p.Parse(nil, nil)
	})
	t.add("parser.Parse", k, m, text)
	k, m = guarded(budget, func() (bool, error) {
		p, err := ebnfparser.New("t.ebnf", strings.NewReader(text))
		if err != nil {
			return false, err
		}
		n, err := p.ParseAndBuildAST()
		return n == nil, err
	})
	t.add("parser.ParseAndBuildAST", k, m, text)
	k, m = guarded(budget, func() (bool, error) {
		g, err := ebnfast.Parse("t.ebnf", strings.NewReader(text))
		return g == nil, err
	})
	t.add("ast.Parse", k, m, text)
	var sp *spec.Spec
	k, m = guarded(budget, func() (bool, error) {
		s, err := spec.Parse("t.ebnf", strings.NewReader(text))
		sp = s
		return s == nil, err
	})
	t.add("spec.Parse", k, m, text)
	if k == "ok" && sp != nil {
		t.nontrivial++
		k, m = guarded(budget, func() (bool, error) {
			d, _, err := sp.DFA()
			return d == nil, err
		})
		t.add("Spec.DFA", k, m, text)
		k, m = guarded(budget, func() (bool, error) {
			T, err := sp.LALRParsingTable()
			return T == nil, err
		})
		t.add("Spec.LALRParsingTable", k, m, text)
		if gendir != "" {
			dir := filepath.Join(gendir, fmt.Sprintf("g%d", t.inputs))
			_ = os.MkdirAll(dir, 0o755)
			k, m = guarded(budget, func() (bool, error) {
				return false, golang.Generate(ui.NewNop(), &golang.Params{Path: dir, Spec: sp})
			})
			t.add("golang.Generate", k, m, text)
			os.RemoveAll(dir)
		}
	} else if k == "err" {
		t.nontrivial++
	}
}

func patternEntryPoints(t *totals, pat string) {
	t.inputs++
	budget := totalityBudget
	k, m := guarded(budget, func() (bool, error) {
		n, err := nfa.Parse(pat)
		if err == nil && n != nil {
			_ = n.ToDFA()
		}
		return n == nil, err
	})
	t.add("nfa.Parse", k, m, pat)
	if k == "ok" || k == "err" {
		t.nontrivial++
	}
	k, m = guarded(budget, func() (bool, error) {
		a, err := regexast.Parse(pat)
		if err == nil && a != nil {
			_ = a.ToDFA()
		}
		return a == nil, err
	})
	t.add("regex ast.Parse", k, m, pat)
	k, m = guarded(budget, func() (bool, error) {
		d, err := spec.VerifRegexToDFA(pat)
		return d == nil, err
	})
	t.add("regexToDFA", k, m, pat)
}

// totality: every single-byte deletion, replacement, insertion and every truncation of the given specifications
// (and the specifications/patterns themselves) through every entry point, with panics and hangs detected.
var totalityBudget = 10 * time.Second

func cmdTotality(args []string) error {
	fs := flag.NewFlagSet("totality", flag.ContinueOnError)
	budgetS := fs.Int("budget", 10, "seconds an entry point may take before it counts as not returning")
	in := fs.String("in", "", "ndjson of {id, kind: spec|pattern|rawspec, text}")
	out := fs.String("out", "", "summary json")
	shard := fs.String("shard", "0/1", "i/n")
	gendir := fs.String("gendir", "", "scratch directory for golang.Generate")
	mutate := fs.Bool("mutate", true, "apply single-byte mutations to kind=spec items")
	if err := fs.Parse(args); err != nil {
		return err
	}
	var shI, shN int
	if _, err := fmt.Sscanf(*shard, "%d/%d", &shI, &shN); err != nil || shN < 1 {
		return fmt.Errorf("bad -shard")
	}
	totalityBudget = time.Duration(*budgetS) * time.Second
	t := &totals{counts: map[string]int{}}
	n := 0
	err := readNDJSON(*in, func(line []byte) error {
		var it PItem
		if err := json.Unmarshal(line, &it); err != nil {
			return err
		}
		if it.Kind == "pattern" {
			n++
			if n%shN == shI {
				patternEntryPoints(t, it.Text)
			}
			return nil
		}
		run := func(text string) {
			n++
			if n%shN == shI {
				specEntryPoints(t, text, *gendir)
			}
		}
		run(it.Text)
		if it.Kind != "spec" || !*mutate {
			return nil
		}
		b := []byte(it.Text)
		for i := 0; i <= len(b); i++ {
			run(string(b[:i])) // truncation
			if i < len(b) {
				run(string(append(append([]byte{}, b[:i]...), b[i+1:]...))) // deletion
			}
			for _, c := range byteSet {
				run(string(append(append(append([]byte{}, b[:i]...), c), b[i:]...))) // insertion
				if i < len(b) && b[i] != c {
					r := append([]byte{}, b...)
					r[i] = c
					run(string(r)) // replacement
				}
			}
		}
		return nil
	})
	if err != nil {
		return err
	}
	w, err := newNDWriter(*out)
	if err != nil {
		return err
	}
	if err := w.Write(map[string]any{"counts": t.counts, "bad": t.bad, "evals": t.evals, "inputs": t.inputs, "nontrivial": t.nontrivial}); err != nil {
		return err
	}
	return w.Close()
}

func init() {
	commands["totality"] = cmdTotality
}
